#!/bin/sh
# builds /verif/bin/gosx offline with the toolchain /repo requires
set -e
cd "$(dirname "$0")/../engine"
MC="${GOMODCACHE:-${GOPATH:-$HOME/go}/pkg/mod}"
TC="$MC/golang.org/toolchain@v0.0.1-go1.25.0.linux-amd64"
if [ -x "$TC/bin/go" ]; then GO="$TC/bin/go"; export GOTOOLCHAIN=local GOROOT="$TC"; else GO=go; fi
export GOFLAGS=-mod=mod GOPROXY=off
exec "$GO" build -o ../bin/gosx ./cmd/gosx
