#!/usr/bin/env python3
# Regenerates MANIFEST.json from checks/*.json (one entry per registered check).
import json, glob, os
root = os.path.dirname(os.path.dirname(os.path.abspath(__file__)))
TEXT = {
 "C01": ("Bounded symbolic execution of the real d2parser.Parse/ParseKey/ParseMapKey/ParseValue (go/ssa regenerated from /repo each run): every byte string up to the stated length is covered by solver-enumerated path classes; a panic, an exhausted instruction budget or a nil tree on any path is a counterexample replayed natively. Right level because crashes hide at rare byte combinations that sampling misses and the parser is a pure function of its input.", "4 C01"),
 "C02": ("Same engine: every node and error range of Parse(s) is compared with line/column recomputed from the byte offset, and nesting is asserted parent-by-child, for all ASCII inputs up to the bound. Exhaustive inside the bound, nothing claimed outside it.", "4 C02"),
 "C05": ("RawString -> Format -> ParseKey/ParseValue round trip executed symbolically on the real code for all ASCII strings up to the bound plus all letter-case variants of the special words; the solver decides every escape/quote branch, so rare strings (3D, NULL, True) are found without luck.", "4 C05"),
 "C06": ("d2compiler.Compile executed symbolically on every program over a 13-character alphabet up to the bound; on each compiling path the IDs of the resulting graph are re-parsed and compared pairwise.", "4 C06"),
 "C07": ("d2compiler.Compile (parser, d2ir, graph construction, validation) executed symbolically on every ASCII input up to the bound: each path must end with a graph or positioned errors; panics and budget exhaustion are counterexamples.", "4 C07"),
 "C09": ("Same compile harness as C06; the tree/children/endpoint invariants are asserted on the graph of every compiling path.", "4 C09"),
 "C12": ("Differential bounded check of the glob matcher kernel d2ir.matchPattern against a reference matcher for all ASCII names/literals up to the bound and five pattern shapes, plus all two-byte UTF-8 characters whose lowering may change length. Only the matcher kernel is decided; glob application order is outside the claim.", "4 C12"),
 "C16": ("Style.Apply executed symbolically on all strings up to the bound for the integer-valued attributes (vs a reference decimal reader and the documented ranges) and for opacity over a 17-character numeric alphabet including NaN/Inf spellings.", "4 C16"),
 "C33": ("makeKeyframe executed with the interval T symbolic (QF_FP, every T in range) and the board count concrete per path; ordering, [0,100] and one-board-visible assertions are discharged by z3 for all T, including the penultimate board of 99..104 boards where rounding selects the keyframe form.", "4 C33"),
}
NOTE = "Trusted: the gosx interpreter's semantics for Go SSA and its intrinsics (validated each run by replaying sampled passing paths and every counterexample against a native build of the same harness), z3 4.8.12, go/ssa v0.29.0. Bounds, stubs and what lies outside are in checks/<id>.json and repeated in the evidence file."
NA = {
 "C03": "not claimed: the Parse->Format->Parse->Format harness runs in the engine, but the unchanged tree is not idempotent on several input classes (one-line files with two statements `a;a`, trailing backslash, `- ::`) that could not be characterised precisely enough in this round to record as known findings without masking other violations (DESIGN 5)",
 "C04": "not built: needs format+compile equivalence over program templates longer than the byte-level bound reached (N<=4)",
 "C08": "not built: map-iteration order as a symbolic choice is not wired to a compile-twice harness; real goroutine schedules are outside the engine (no scheduler layer)",
 "C10": "not built: needs programs of >=9 characters (repeated declarations, null) beyond the byte-level bound reached; template harness not written",
 "C11": "not built: two parallel connections need >=9 characters, beyond the bound reached; template harness not written",
 "C13": "not built: vars blocks need keyword templates; harness not written",
 "C14": "not built: imports need an fs.FS model (lib/memfs) in the engine; harness not written",
 "C15": "not built: board keywords (layers/scenarios/steps) need keyword templates; harness not written",
 "C17": "not applicable: dagre and ELK run as JavaScript inside goja; the interpreter loop over a JS program cannot be encoded for the solver within reach; the Go->JS ID bridge (escapeID) uses regexp, whose automaton construction the engine does not execute symbolically in reasonable time",
 "C18": "not built: layout orchestration with a stubbed core layout was planned (tier 3) and not reached",
 "C19": "not applicable for dagre/ELK (JavaScript); nested-graph sizing kernel not built",
 "C20": "not applicable: connection routes come from the JavaScript engines and transcendental float tracing",
 "C21": "not built: float geometry harness (dyadic lowering exists in the engine) not written/validated in time",
 "C22": "not built: grid layout float harness not written/validated in time",
 "C23": "not built: sequence layout harness (tier 3) not reached",
 "C24": "not built: near placement float harness not written/validated in time",
 "C25": "not applicable: byte-identical SVG across processes and goroutine schedules involves the JS engines, font measurement and real scheduling, none of which the engine encodes",
 "C26": "not applicable: the wire format is reflection-driven encoding/json; symbolic execution of reflect-based marshalling is outside the engine",
 "C27": "not built: shape-fit float harness not written/validated in time; oval uses transcendental functions (not encodable)",
 "C28": "not built: exporter harness not reached",
 "C29": "not built: bounding-box harness not reached",
 "C30": "not built: SVG escaping kernels not reached; drawShape is thousands of formatting paths",
 "C31": "not built: theme override harness not reached",
 "C32": "not built: ASCII renderer harness (tier 3) not reached",
 "C34": "not built: needs an OS file-system model for d2cli.render; a genuine defect (board named `..` escapes the output directory) was confirmed by hand at design time and is described in DESIGN 6, but no check claims the property",
 "C35": "not built: board links need keyword templates and the d2cli relink path; harness not written",
 "C36": "not built: d2oracle harnesses (tier 3) not reached",
 "C37": "not built: d2oracle harnesses (tier 3) not reached",
 "C38": "not built: d2oracle harnesses (tier 3) not reached",
 "C39": "not built: d2oracle harnesses (tier 3) not reached",
 "C40": "not built: d2oracle harnesses (tier 3) not reached",
 "C41": "not built: d2oracle harnesses (tier 3) not reached",
 "C42": "not built: d2lsp harness not reached",
 "C43": "not applicable within reach: Encode/Decode are thin glue around compress/flate with a preset dictionary; DEFLATE's input-length loops and hash chains do not terminate in the solver for any useful script length, and stubbing flate leaves nothing of the property",
 "C44": "not applicable: goroutine/channel interleavings of the watch loop need a scheduler layer the engine does not have",
 "C45": "not applicable: same as C44 (websocket handlers, WaitGroup, shutdown interleavings)",
 "C46": "not applicable: worker scheduling and failure order need the scheduler layer; the sequential kernel uses regexp",
 "C47": "not applicable: glyph coverage depends on parsing font binaries (sfnt tables) and the subsetting library",
 "C48": "not built: needs a crash-point file-system model; the in-place truncate+write of `d2 fmt` was confirmed with strace at design time (DESIGN 6) but no check claims the property",
}
checks = []
claimed = []
for f in sorted(glob.glob(os.path.join(root, "checks", "C*.json"))):
    c = json.load(open(f))
    i = c["id"]
    claimed.append(i)
    text, ref = TEXT[i]
    checks.append({
        "property_id": i,
        "quick_cmd": "./bin/check %s --tier quick" % i,
        "thorough_cmd": "./bin/check %s --tier thorough" % i,
        "evidence_file": "/verif/evidence/%s.json" % i,
        "replay_cmd_template": "./bin/gosx replay %s {path}" % i,
        "engine": "gosx",
        "level_claimed": {"category": "model_checking", "text": text, "design_ref": "DESIGN.md section " + ref},
        "level_note": NOTE + " Bounds: " + "; ".join(h["func"] + ": " + h["bounds"] for h in c["harnesses"]) + ". Outside the claim: " + "; ".join(c.get("outside", [])) + ".",
        "technique": "bounded symbolic execution of go/ssa of the real code, z3 decides every branch and assertion, native replay of counterexamples",
    })
m = {
 "version": 1,
 "setup_cmd": "./bin/setup.sh",
 "hooks": {
  "guard": "verif",
  "enable": "none needed: harness files under /verif/harness are injected into /repo's packages with go/packages and `go test -overlay`; /repo carries no instrumentation",
  "baseline_off_cmd": "cd /repo && GOFLAGS=-mod=mod GOPROXY=off go test -vet=off -count=1 -timeout 25m ./...",
  "source_commits": [],
  "add_only": True,
 },
 "engines": [{"name": "gosx", "path": "engine", "serves_properties": claimed,
   "kind_free_text": "forking symbolic interpreter over go/ssa of /repo's sources (rebuilt every run) with z3 deciding branches and assertions; native replay through go test -overlay"}],
 "checks": checks,
 "not_applicable": [{"property_id": k, "reason": NA[k]} for k in sorted(NA) if k not in claimed],
 "notes": "See DESIGN.md (section 0.2 for the state after this round). Genuine defects: known_findings.json (open entries print KNOWN-FINDING; fixed entries name the fix: commit in /repo).",
}
allp = [json.loads(l)["id"] for l in open(os.path.join(root, "properties.jsonl"))]
missing = [p for p in allp if p not in claimed and p not in NA]
assert not missing, missing
json.dump(m, open(os.path.join(root, "MANIFEST.json"), "w"), indent=1)
print("claimed", claimed, "n/a", len(m["not_applicable"]))
