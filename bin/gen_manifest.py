#!/usr/bin/env python3
# Regenerates MANIFEST.json from checks/*.json (one entry per registered check).
import json, glob, os
root = os.path.dirname(os.path.dirname(os.path.abspath(__file__)))
TEXT = {
 "C01": ("Bounded symbolic execution of the real d2parser.Parse/ParseKey/ParseMapKey/ParseValue (go/ssa regenerated from /repo each run): every byte string up to the stated length is covered by solver-enumerated path classes; a panic, an exhausted instruction budget or a nil tree on any path is a counterexample replayed natively. Right level because crashes hide at rare byte combinations that sampling misses and the parser is a pure function of its input.", "4 C01"),
 "C02": ("Same engine: every node and error range of Parse(s) is compared with line/column recomputed from the byte offset, and nesting is asserted parent-by-child, for all ASCII inputs up to the bound. Exhaustive inside the bound, nothing claimed outside it.", "4 C02"),
 "C05": ("RawString -> Format -> ParseKey/ParseValue round trip executed symbolically on the real code for all ASCII strings up to the bound plus all letter-case variants of the special words; the solver decides every escape/quote branch, so rare strings (3D, NULL, True) are found without luck.", "4 C05"),
 "C06": ("d2compiler.Compile executed symbolically on every program over a 13-character alphabet up to the bound; on each compiling path the IDs of the resulting graph are re-parsed and compared pairwise.", "4 C06"),
 "C07": ("d2compiler.Compile (parser, d2ir, graph construction, validation) executed symbolically on every ASCII input up to the bound: each path must end with a graph or positioned errors; panics and budget exhaustion are counterexamples.", "4 C07"),
 "C09": ("Same compile harness as C06; the tree/children/endpoint invariants are asserted on the graph of every compiling path.", "4 C09"),
 "C12": ("Differential bounded check of the glob matcher kernel d2ir.matchPattern against a reference matcher for all ASCII names/literals up to the bound and five pattern shapes, plus all two-byte UTF-8 characters whose lowering may change length. Only the matcher kernel is decided; glob application order is outside the claim.", "4 C12"),
 "C16": ("Style.Apply executed symbolically on all strings up to the bound for the integer-valued attributes (vs a reference decimal reader and the documented ranges) and for opacity over a 17-character numeric alphabet including NaN/Inf spellings.", "4 C16"),
 "C33": ("makeKeyframe executed with the interval T symbolic (QF_FP, every T in range) and the board count concrete per path; ordering, [0,100] and one-board-visible assertions are discharged by z3 for all T, including the penultimate board of 99..104 boards where rounding selects the keyframe form.", "4 C33"),
}

META = "Metamorphic/differential bounded check on the real compiler: both programs of every pair are compiled by d2compiler.Compile inside the symbolic interpreter, a canonical projection of the two board trees (IDs, labels, shapes, attributes, styles, connections with endpoints/arrows/index, nested boards, element order) is built as a string with symbolic bytes, and z3 decides equality for every value of the symbolic names/values/choices within the bound. "
TEXT.update({
 "C18": ("The real layout orchestration (LayoutNested with subgraph extraction, injection, order restoration and re-attachment of cross-diagram connections, plus the real grid, sequence and near layouts) is executed by the symbolic interpreter over a family of nested diagrams whose shape (kinds of the outer, inner and third-level containers, near groups, which connections cross which boundary) is a vector of symbolic choices; the JavaScript core engine is replaced by a positional stand-in. On every member of the family the structure snapshot before and after must be equal and every pointer must lead to an object of the board. The solver here only decides the choice vector; the strength is that every combination in the family is covered, not a sample.", "4 C18"),
 "C23": ("d2sequence.layoutSequenceDiagram executed on sequence diagrams whose messages (source and destination among actors and their spans, self messages included) are symbolic choices and whose actor, note and label sizes are symbolic numbers (exact dyadic lowering of float64): order of actors and messages, the common baseline, horizontality and the attachment of every message end to a lifeline or span border are decided by the solver for every size in range.", "4 C23"),
 "C32": ("The real text renderer (ASCIIartist.Render with all shape drawers and the route drawer) is executed by the symbolic interpreter on laid-out diagrams assembled from symbolic choices (shape type, size, label, label position, multiple, relative position, connection arrowheads/label/route, character set). Sizes come from menus because the canvas size bounds the renderer's loops; the solver decides the choice vector and the byte-level assertions (7-bit ASCII, label present). Found the document shape writing mis-decoded overline bytes in both character sets (repaired).", "4 C32"),
 "C22": ("d2grid.layoutGrid executed on grids with both rows and columns given, with symbolic cell sizes (exact dyadic lowering of float64): order, disjointness, exact gaps, containment and row/column alignment are proved by the solver for every size in range. Grids with only rows or only columns (dynamic layout) are executed with the size along a line drawn from a menu (it decides the cuts, found through standard deviations the solver cannot reach) and the size across it symbolic: lines in declaration order, exact alignment and gaps, containment and disjointness for every such size.", "4 C22"),
 "C44": ("The watcher's real concurrency code (requestCompile, compileLoop, broadcast, handleWatch, writeLoop with their channels, mutexes and wait groups) is executed under the engine's cooperative scheduler with the compiler and the websocket library replaced by recording stand-ins; every schedule within the bound is explored and the latest-result and monotonic-delivery assertions are checked at quiescence.", "4 C44/C45"),
 "C45": ("Same scheduler harness for shutdown: close() racing with connected clients, a pending compile and a late connection attempt, on every schedule within the bound: close returns only when all handlers have ended, nothing is admitted afterwards, no deadlock or panic.", "4 C44/C45"),
 "C46": ("The real bundle/runWorkers code (goroutines, semaphore, channels, WaitGroup, mutex, select loop) is executed under the engine's cooperative scheduler, in which every choice of the next goroutine at a blocking operation and a bounded number of preemptions are symbolic choices; together with a symbolic load/fail bit per image every schedule within the bound is explored and the output must equal an order-independent reference.", "4 C46"),
 "C47": ("Partial: only the step before subsetting is decided. Diagram.GetCorpus/GetNestedCorpus are executed on a board holding every text-bearing element kind with symbolic text, and every drawn text must be in the corpus the font subsetter receives. The subsetting of the font binary is not covered.", "4 C47"),
 "C21": ("Object.SizeToContent executed with symbolic explicit width/height, content size and padding for 17 shape types; the solver proves the resulting size equals the request (or the documented exceptions). The automatic-fit half of the property is the subject of C27.", "4 C21"),
 "C24": ("d2near.place executed on symbolic geometry (exact dyadic fixed-point lowering of float64) for all eight constant positions and ten label positions; disjointness from the main bounding box on the named sides and centring are discharged by the solver for every geometry in range.", "4 C24"),
 "C30": ("Only the escaping kernels are decided: svg.EscapeText (through the real encoding/xml escaper) on every short ASCII string must yield pure character data that reads back as the input, and the ID/class-name encoders must stay inside attribute-safe alphabets. Whole-document well-formedness is outside the claim.", "4 C30"),
 "C31": ("ThemeCSS, Theme.ApplyOverrides and ResolveThemeColor of the real code executed for every catalogue theme and every override set of the bound (choices are solver-enumerated; values concrete): every colour code must resolve to the override or the catalogue colour in each stylesheet rule. Weaker than the other checks: bounded enumeration, no symbolic data.", "4 C31"),
 "C28": ("d2exporter.Export executed on graphs compiled from a styled template with the theme's special rules as symbolic booleans (every present and future combination) and a symbolic choice of which style attributes the user sets; the one-to-one and user-styles-win assertions are discharged on every path.", "4 C28"),
 "C41": ("d2oracle edits with a symbolic operation, key and target board on a four-board diagram: the projections of all boards other than the addressed one are compared before and after on every path, for successful and refused edits.", "4 C36-C41"),
 "C34": ("The real d2cli.render and resolveLinks are executed on board trees with symbolic board names (all short strings over a . / - plus reserved-looking words); drawing/writing of one board and os.RemoveAll are replaced by recording stand-ins, and every recorded path must be a distinct file strictly inside the directory derived from the output path. Found the path traversal through board names (repaired) and the index.svg clash (recorded).", "4 C34"),
 "C48": ("The real d2cli.Write / xmain.AtomicWritePath / fmtCmd code is executed over a file-system model that replaces the os calls (engine-side function substitution), with the kill point a symbolic choice over all system-call steps and the mid-write states; on every path the target file must hold its complete old or complete new content. The check found that `d2 fmt` truncated files in place (repaired).", "4 C48"),
 "C42": ("d2lsp.GetCompletionItems executed symbolically on all short texts over a syntax alphabet and on keyword templates with a symbolic cursor line/column (a panic on any path is a counterexample), and GetBoardAtPosition on a multi-board file with a symbolic cursor against a reference walk. Reference ranges (GetRefRanges) are not covered.", "4 C42"),
 "C03": ("Parse -> Format -> Parse -> Format of the real parser and printer executed symbolically on every input up to the bound over a 16-character alphabet of D2 syntax: the formatted text must parse and be a fixpoint; found (and led to the repair of) keys ending in a dash. A second harness fills 18 templates of constructs longer than the bound (board keywords, substitutions inside quoted text, arrays, block strings, comments, connection fields, imports) with symbolic holes; it found four more formatter defects (repaired) and the array range defect (recorded).", "4 C03"),
 "C16": ("Style.Apply and d2compiler's reserved-key validation executed symbolically against reference domains written in the harness from the documentation: integer ranges on all short ASCII strings, opacity over a numeric alphabet incl. NaN/Inf spellings, the 150 CSS colour names in several spellings (and perturbed), # colours through the real regular expression, keyword and boolean attributes, sizes/positions/gaps/grid counts through the real compiler with the error position.", "4 C16"),
 "C27": ("For 17 (thorough: 21) of the 23 shape types GetDimensionsToFit -> NewShape -> GetInnerBox is executed on symbolic content and padding sizes (multiples of 0.5, exact dyadic fixed-point lowering of float64; one or two genuinely floating-point operations per shape stay QF_FP terms) and the solver proves the inner box holds content plus padding and lies inside the shape, within one pixel.", "4 C27"),
 "C29": ("Diagram.BoundingBox executed on shapes and a connection with symbolic integer geometry, decoration flags and label position; every drawn extent computed independently in the harness must lie inside the reported box (1 px slack) for all values in range.", "4 C29"),
 "C02": ("Every node and error range of Parse(s) is checked against positions recomputed from the input by an independent reference (UTF-8 bytes, or UTF-16 code units in UTF-16 mode), nesting is asserted parent-by-child, and the text under every key segment is re-parsed; inputs: all ASCII strings up to the bound, all strings over a punctuation alphabet one character longer, and five input shapes with two fully symbolic code points each (all 1.1 million code points, decided by the solver).", "4 C02"),
 "C04": (META + "Here the second program is d2format.Format of the first. Exhaustive over all programs up to the length bound over a 16-character alphabet and over nineteen templates with symbolic holes (among them labels spelled like reserved words in every letter case, which exposed that the formatter lower-cased them).", "4 C04"),
 "C08": ("d2compiler.Compile is executed twice per path with the iteration order of every Go map it ranges over turned into a symbolic choice; the two projections (or error texts) must be equal on every path. Decides dependence on map order, the only source of nondeterminism inside one goroutine; real schedules are outside the engine.", "4 C08"),
 "C10": (META + "17 pairs state the override/null rules (last assignment wins across case variants of the name, null on object/child/attribute/connection/endpoint, re-creation after null).", "4 C10"),
 "C11": ("Connection programs drawn by symbolic choice are compiled by the real compiler; indices, IDs and order are asserted directly on the graph, and an indexed reference with symbolic index must change exactly one connection or be an error; base connections and the reference each range over both orientations and all four arrow forms.", "4 C11"),
 "C12": ("Differential bounded check of the matcher kernel d2ir.matchPattern against a reference matcher (all ASCII names/literals up to the bound, all two-byte UTF-8 characters), plus " + META + "Here the second program has the glob expanded by the reference matcher before/after the declarations it must reach, for later targets, explicit-vs-glob ordering in both directions, * vs **, connection globs and reserved keywords.", "4 C12"),
 "C13": (META + "The second program has the variable's value written in place of the substitution (six kinds of use site, inner scope shadowing outer); single-quoted text and undefined names are asserted directly.", "4 C13"),
 "C14": (META + "The second program is the importing file with the imported content inlined (element order not compared). Cycle detection: three files with symbolic import targets; a reference walk with path.Join semantics says whether the chain from index.d2 returns to a file being imported, and the compiler must then report a cyclic import (and must terminate in every case).", "4 C14"),
 "C15": (META + "A base with one symbolic statement and two sibling boards (scenarios, steps or layers); each board's content must equal the compilation of the inherited text plus its own statements, and the base must equal the base compiled alone.", "4 C15"),
 "C35": ("The real compiler runs on a five-board template with a link value assembled from symbolic tokens and declared at a symbolic site; an independent reference resolves the link against the known board tree: existing other board => stored absolute path, missing or own board => dropped. For the rewriting clause the real d2cli.render and resolveLinks run on eight board trees with symbolic names and must agree on the file of every board.", "4 C35"),
 "C36": ("One (thorough: two) symbolic d2oracle edit on six base diagrams, all inside the symbolic interpreter (parser, formatter, compiler, oracle): the text of the returned graph must compile to the same projection and be a formatter fixpoint on every path. UpdateImport is run on programs assembled from a menu of import forms and compared with a reference count of imports, then compiled against the moved files.", "4 C36-C41"),
 "C37": ("d2oracle.Create/Set with symbolic key and value on the base diagrams: reference effects (exactly the named element changes, only missing containers appear, label equals the value byte for byte) asserted on the returned graph, elements followed by unique labels.", "4 C36-C41"),
 "C38": ("d2oracle.Delete with symbolic key on the base diagrams and on a family of name-collision containers: removal of exactly the target and its attached connections, hoisting of children, renumbering of parallel connections, everything else unchanged.", "4 C36-C41"),
 "C39": ("d2oracle.Rename/Move with symbolic key, destination and includeDescendants: nothing lost, only the moved object and its followers change ID, unmoved children go to the former parent, only destination containers are created.", "4 C36-C41"),
 "C40": ("The four *IDDeltas predictors are run against the edits they predict for every symbolic key/destination: every surviving element (followed by label) must carry the predicted ID or its old one. Found and led to four fix: commits in d2oracle.", "4 C36-C41"),
 "C43": ("urlenc.Encode/Decode executed symbolically on every byte string up to the bound with compress/flate replaced by a stored-block DEFLATE stand-in: decides the glue (URL-safe alphabet, Close before reading the buffer, error paths), not DEFLATE.", "4 C43"),
})
NOTE = "Trusted: the gosx interpreter's semantics for Go SSA and its intrinsics (validated each run by replaying sampled passing paths and every counterexample against a native build of the same harness), z3 4.8.12, go/ssa v0.29.0. Bounds, stubs and what lies outside are in checks/<id>.json and repeated in the evidence file."
NA = {
 "C03": "not claimed: the Parse->Format->Parse->Format harness runs in the engine, but the unchanged tree is not idempotent on several input classes (one-line files with two statements `a;a`, trailing backslash, `- ::`) that could not be characterised precisely enough in this round to record as known findings without masking other violations (DESIGN 5)",
 "C04": "not built: needs format+compile equivalence over program templates longer than the byte-level bound reached (N<=4)",
 "C08": "not built: map-iteration order as a symbolic choice is not wired to a compile-twice harness; real goroutine schedules are outside the engine (no scheduler layer)",
 "C10": "not built: needs programs of >=9 characters (repeated declarations, null) beyond the byte-level bound reached; template harness not written",
 "C11": "not built: two parallel connections need >=9 characters, beyond the bound reached; template harness not written",
 "C13": "not built: vars blocks need keyword templates; harness not written",
 "C14": "not built: imports need an fs.FS model (lib/memfs) in the engine; harness not written",
 "C15": "not built: board keywords (layers/scenarios/steps) need keyword templates; harness not written",
 "C17": "not applicable: dagre and ELK run as JavaScript inside goja; the interpreter loop over a JS program cannot be encoded for the solver within reach; the Go->JS ID bridge (escapeID) uses regexp, whose automaton construction the engine does not execute symbolically in reasonable time",
 "C18": "not built: layout orchestration with a stubbed core layout was planned (tier 3) and not reached",
 "C19": "not applicable: containment and non-overlap after layout are the output of the JavaScript engines (dagre/ELK in goja), which the solver cannot reach; the Go parts that place special diagrams are covered by C22 (grid cells), C24 (near objects) and C18 (structure)",
 "C20": "not applicable: connection routes come from the JavaScript engines and transcendental float tracing",
 "C21": "not built: float geometry harness (dyadic lowering exists in the engine) not written/validated in time",
 "C22": "not built: grid layout float harness not written/validated in time",
 "C23": "not built: sequence layout harness (tier 3) not reached",
 "C24": "not built: near placement float harness not written/validated in time",
 "C25": "not applicable: byte-identical SVG across processes and goroutine schedules involves the JS engines, font measurement and real scheduling, none of which the engine encodes",
 "C26": "not applicable: the wire format is reflection-driven encoding/json; symbolic execution of reflect-based marshalling is outside the engine",
 "C27": "not built: shape-fit float harness not written/validated in time; oval uses transcendental functions (not encodable)",
 "C28": "not built: exporter harness not reached",
 "C29": "not built: bounding-box harness not reached",
 "C30": "not built: SVG escaping kernels not reached; drawShape is thousands of formatting paths",
 "C31": "not built: theme override harness not reached",
 "C32": "not built: ASCII renderer harness (tier 3) not reached",
 "C34": "not built: needs an OS file-system model for d2cli.render; a genuine defect (board named `..` escapes the output directory) was confirmed by hand at design time and is described in DESIGN 6, but no check claims the property",
 "C35": "not built: board links need keyword templates and the d2cli relink path; harness not written",
 "C36": "not built: d2oracle harnesses (tier 3) not reached",
 "C37": "not built: d2oracle harnesses (tier 3) not reached",
 "C38": "not built: d2oracle harnesses (tier 3) not reached",
 "C39": "not built: d2oracle harnesses (tier 3) not reached",
 "C40": "not built: d2oracle harnesses (tier 3) not reached",
 "C41": "not built: d2oracle harnesses (tier 3) not reached",
 "C42": "not built: d2lsp harness not reached",
 "C43": "not applicable within reach: Encode/Decode are thin glue around compress/flate with a preset dictionary; DEFLATE's input-length loops and hash chains do not terminate in the solver for any useful script length, and stubbing flate leaves nothing of the property",
 "C44": "not applicable: goroutine/channel interleavings of the watch loop need a scheduler layer the engine does not have",
 "C45": "not applicable: same as C44 (websocket handlers, WaitGroup, shutdown interleavings)",
 "C46": "not applicable: worker scheduling and failure order need the scheduler layer; the sequential kernel uses regexp",
 "C47": "not applicable: glyph coverage depends on parsing font binaries (sfnt tables) and the subsetting library",
 "C48": "not built: needs a crash-point file-system model; the in-place truncate+write of `d2 fmt` was confirmed with strace at design time (DESIGN 6) but no check claims the property",
}
checks = []
claimed = []
for f in sorted(glob.glob(os.path.join(root, "checks", "C*.json"))):
    c = json.load(open(f))
    i = c["id"]
    claimed.append(i)
    text, ref = TEXT[i]
    checks.append({
        "property_id": i,
        "quick_cmd": "./bin/check %s --tier quick" % i,
        "thorough_cmd": "./bin/check %s --tier thorough" % i,
        "evidence_file": "/verif/evidence/%s.json" % i,
        "replay_cmd_template": "./bin/gosx replay %s {path}" % i,
        "engine": "gosx",
        "level_claimed": {"category": "model_checking", "text": text, "design_ref": "DESIGN.md section " + ref},
        "level_note": NOTE + " Bounds: " + "; ".join(h["func"] + ": " + h["bounds"] for h in c["harnesses"]) + ". Outside the claim: " + "; ".join(c.get("outside", [])) + ".",
        "technique": "bounded symbolic execution of go/ssa of the real code, z3 decides every branch and assertion, native replay of counterexamples",
    })
m = {
 "version": 1,
 "setup_cmd": "./bin/setup.sh",
 "hooks": {
  "guard": "verif",
  "enable": "none needed: harness files under /verif/harness are injected into /repo's packages with go/packages and `go test -overlay`; /repo carries no instrumentation",
  "baseline_off_cmd": "cd /repo && GOFLAGS=-mod=mod GOPROXY=off go test -vet=off -count=1 -timeout 25m ./...",
  "source_commits": [],
  "add_only": True,
 },
 "engines": [{"name": "gosx", "path": "engine", "serves_properties": claimed,
   "kind_free_text": "forking symbolic interpreter over go/ssa of /repo's sources (rebuilt every run) with z3 deciding branches and assertions; native replay through go test -overlay"}],
 "checks": checks,
 "not_applicable": [{"property_id": k, "reason": NA[k]} for k in sorted(NA) if k not in claimed],
 "notes": "See DESIGN.md (section 0.2 for the state after this round). Genuine defects: known_findings.json (open entries print KNOWN-FINDING; fixed entries name the fix: commit in /repo).",
}
allp = [json.loads(l)["id"] for l in open(os.path.join(root, "properties.jsonl"))]
missing = [p for p in allp if p not in claimed and p not in NA]
assert not missing, missing
json.dump(m, open(os.path.join(root, "MANIFEST.json"), "w"), indent=1)
print("claimed", claimed, "n/a", len(m["not_applicable"]))
