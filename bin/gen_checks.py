#!/usr/bin/env python3
# Writes the checks/<id>.json files of the template/metamorphic harnesses
# (kept as a script so that bounds of many harnesses can be edited in one place).
import json, os
root = os.path.dirname(os.path.dirname(os.path.abspath(__file__)))
CP = "oss.terrastruct.com/d2/d2compiler"
OP = "oss.terrastruct.com/d2/d2oracle"
INIT = ["math/big", "internal/oserror"]
PROJ = ["harness/d2compiler/zz_verif_proj.go", "harness/d2compiler/zz_verif_fs.go"]
FMT = "fmt.Sprintf/Errorf: format parsed by the engine, operands rendered natively or spliced"

def h(pkg, files, func, covers, bounds, quick, thorough, budget=20000000, qwall=900, twall=480, **kw):
    d = {"pkg": pkg, "files": files, "func": func, "initrun": INIT, "covers": covers, "budget": budget,
         "bounds": bounds, "quick": {"params": quick, "wall_s": qwall}, "thorough": {"params": thorough, "wall_s": twall}}
    d.update(kw)
    return d

def comp(stem, func, covers, bounds, quick, thorough, **kw):
    return h(CP, ["harness/d2compiler/zz_verif_%s.go" % stem] + PROJ, func, covers, bounds, quick, thorough, **kw)

def orc(func, covers, bounds, quick, thorough, **kw):
    return h(OP, ["harness/d2oracle/zz_verif_oracle.go"] + PROJ, func, covers, bounds, quick, thorough, **kw)

C = {}
# C04: checks/C04.json is maintained by hand
C["C08"] = dict(harnesses=[
    comp("c08", "VerifC08MapOrder", ["compiled"],
         "d2compiler.Compile twice on the same input with the iteration order of every Go map a symbolic choice (all permutations up to 3 entries, rotations and reversal above): every program of length 1..N over aAb.-><:;{}'* plus 7 templates exercising classes, vars, boards, globs, sql_table/class, links, near/grid",
         {"N": 2}, {"N": 3})],
    stubs=[FMT], outside=["real goroutine schedules and GOMAXPROCS (the engine executes one goroutine)", "inputs outside the stated templates/bound", "imports"])
C["C10"] = dict(harnesses=[
    comp("c10", "VerifC10Override", ["compiled"],
         "17 program pairs (attribute/label/connection re-assignment, null on object/child/attribute/connection/endpoint/ancestor, re-declaration after null, order of first appearance) that must compile to the same projection; object name of 1..NL letters over aAb with an independently case-flipped second spelling, second value of 1..NV characters over xyX1, two attributes",
         {"NL": 1, "NV": 1}, {"NL": 2, "NV": 2})],
    stubs=[FMT], outside=["longer names/values, other attributes", "programs not of the 17 shapes", "label given both as primary value and as label field (d2 gives the field precedence by design)"])
# C11: checks/C11.json is maintained by hand
C["C13"] = dict(harnesses=[
    comp("c13", "VerifC13Subst", ["compiled"],
         "vars value of 1..N characters over aAn1 _-. (not spelling null) used alone, inside unquoted and double-quoted text, in a connection label, from an inner vars scope shadowing an outer one, and through a nested variable path: same projection as the program with the value written in place",
         {"N": 2}, {"N": 4}),
    comp("c13", "VerifC13Single", ["compiled"],
         "same values: single-quoted ${x} is kept literally; ${y} / ${X} resolve only when defined",
         {"N": 2}, {"N": 4})],
    stubs=[FMT], outside=["values with other characters, composite variables, spread substitutions", "d2-config variables"])
C["C14"] = dict(harnesses=[
    comp("c14", "VerifC14Inline", ["compiled"],
         "imported file of 1..S statements (9 kinds incl. *** globs on objects and connections and a spread substitution only the importer resolves; names over abA, value over xyX1) imported by spread at top of file, as value into an empty map, by spread inside a map, from a subdirectory with .d2 spelled out, and followed by an overriding declaration: same projection (element order not compared) as the inlined text",
         {"S": 2}, {"S": 3}),
    comp("c14", "VerifC14Cycle", ["done", "cycle", "acyclic"],
         "4 files (index, x, d/y, d/z), each importing nothing or one of up to T path spellings from a per-file menu (sibling names, ./, ../, d/../x, explicit .d2, a missing file): a chain that returns to a file being imported is reported as cyclic import, a missing file is an error, everything else compiles; reference resolution by path.Join in the harness",
         {"T": 4}, {"T": 6})],
    stubs=[FMT, "importable files come from an in-memory fs.FS defined in the harness (vFS)"],
    outside=["links and icons inside imported files (rebasing)", "globs crossing imports", "more than 3 files"])
C["C15"] = dict(harnesses=[
    comp("c15", "VerifC15Boards", ["compiled", "oracle"],
         "base a,b,a->b plus one symbolic statement (6 kinds x names abA), two boards u,v of kind scenarios/steps/layers, u with one symbolic statement, v with b: T (thorough: symbolic): base projection equals the base compiled alone; u, v equal the compilation of the inherited text plus their own statements",
         {"S2": 0}, {"S2": 1})],
    stubs=[FMT], outside=["nested boards of nested boards", "classes/vars inheritance", "globs declared inside a step reaching later steps (recorded finding)"])
# C35: checks/C35.json is maintained by hand (second harness in d2cli)
OB = "6 base diagrams with uniquely labelled elements (flat, container, parallel connections, deep nesting, endpoints existing only through a connection, chain and connection inside a container) plus a family of containers (at the root or nested in a parent, children declared on their own or only as endpoints of a connection) whose children and outside siblings are named from the first CN of {x, x 2, y, x 3}"
C["C36"] = dict(harnesses=[
    orc("VerifC36Stable", ["edited", "refused"],
        OB + "; one edit (HIST=2: two) out of Create/Set/Delete/Rename/Move/ReconnectEdge with keys from 12 object keys and 11 connection keys and a value of 0..NV characters over xX1 .'\"$#\\n- : the text of the returned graph compiles to the same projection and is a formatter fixpoint",
        {"BASES": 3, "NV": 1}, {"NV": 2}),
    orc("VerifC36Imports", ["updated"],
        "programs of 1..K statements from a menu of 10 (spread imports at file level and inside a container, imports as values at two depths and inside an array, of the path being changed, of another path and below a directory; plain statements); UpdateImport removes the path, renames it (moved, lib/moved, ../up) or renames a directory (dir/ -> lib/): the result parses, is a formatter fixpoint, holds exactly the imports a reference computes (old ones gone or renamed, others kept) and compiles against a file system where the old file is gone and the new one exists",
        {"K": 2}, {"K": 4})],
    stubs=[FMT], outside=["edits addressed to nested boards (C41)", "histories longer than HIST", "imports as primary values next to a map and inside substitutions"])
C["C37"] = dict(harnesses=[
    orc("VerifC37CreateSet", ["created", "set", "refused"],
        OB + "; Create of an object or connection key / Set of a label to 1..NV characters over xX1 .'\"$#- : the created key is new and exists, only missing containers are added, the label equals the value exactly, every other element keeps ID, label, shape, parent, endpoints",
        {"BASES": 6, "COLL": 0, "NV": 1}, {"COLL": 1, "NV": 1}),
    orc("VerifC37Inherited", ["set"],
        "six diagrams in which the label or opacity of a does not come from a's own key (a class, a glob, a later re-definition, a connection defined twice and re-labelled through an indexed reference, a class style, a triple-glob style); Set of the label (one character over xX1) or of style.opacity (0.5, 1, 0) on a or on one of the two connections: the element has exactly the given value afterwards, every other element keeps label and opacity, the text is compilable and formatter-stable",
        {}, {})],
    stubs=[FMT], outside=["style attributes other than through C36", "Create with an explicit connection index"])
C["C38"] = dict(harnesses=[
    orc("VerifC38Delete", ["object", "edge", "noop"],
        OB + "; Delete of every object/connection key of the menus: target gone, attached connections gone, children hoisted to the target's parent, later parallel connections renumbered, everything else unchanged (elements followed by label)",
        {"COLL": 1, "CN": 3}, {"COLL": 1, "CN": 4})],
    stubs=[FMT], outside=["deleting attributes (reserved keys)", "diagrams outside the stated bases"])
C["C39"] = dict(harnesses=[
    orc("VerifC39Move", ["moved", "refused"],
        "first 4 base diagrams and the collision family; Rename to one of z,b,a,B,'x y',c and Move to any key of the menu (not into the object's own subtree) with and without descendants: all objects and connections kept with labels, shapes, endpoints; only the moved object and followers change ID; unmoved children go to the former parent; only containers on the destination path are created",
        {"BASES": 4, "COLL": 1, "CN": 3}, {"BASES": 4, "COLL": 1, "CN": 4}, twall=480),
    orc("VerifC39FlatKeys", ["moved"],
        "five diagrams with objects declared through flat keys (a.b: LB {c}, a.b.c: LC, a.b with a separate style line) or carrying styles inside containers; Move of a, a.b, a.b.c, p.a, a.c or p.a.c to the top level, into x or into x.y (a container that does not exist yet), with and without descendants: every label and fill of the diagram is still present exactly as often, the moved object keeps its label under its new ID, the text is compilable and formatter-stable",
        {}, {})],
    stubs=[FMT], outside=["moving an object into its own subtree (not a valid move; d2oracle does not reject it)", "diagrams whose labels are implicit"])
C["C40"] = dict(harnesses=[
    orc("VerifC40Deltas", ["predicted", "refused"],
        "first 4 base diagrams and the collision family; DeleteIDDeltas/RenameIDDeltas/MoveIDDeltas/ReconnectEdgeIDDeltas against the edit itself: every surviving element has the predicted ID or keeps its own, nothing is predicted for removed or unknown elements",
        {"BASES": 4, "COLL": 1, "CN": 3}, {"BASES": 4, "COLL": 1, "CN": 4}, twall=480)],
    stubs=[FMT], outside=["diagrams whose labels are implicit", "edits addressed to nested boards"])
C["C41"] = dict(harnesses=[
    orc("VerifC41Boards", ["edited", "refused"],
        "a diagram with a root board, layers l and k and scenario s; Create/Set/Delete/Rename/Move addressed to l, k or s with 12 keys (own, foreign, missing, connection keys): every other board's projection is unchanged whether the edit succeeds or is refused, and the result is compilable and formatter-stable",
        {}, {})],
    stubs=[FMT], outside=["edits addressed to the root board (boards inheriting from it legitimately change)", "steps, nested boards of nested boards, imported boards"])
C["C43"] = dict(harnesses=[
    h("oss.terrastruct.com/d2/lib/urlenc", ["harness/lib/urlenc/zz_verif_c43.go"], "VerifC43RoundTrip", ["encoded"],
      "urlenc.Encode then Decode on every byte string of length 0..N: result equals the input and the encoded form is within [A-Za-z0-9_=-]; compress/flate replaced in the engine by a stored-block DEFLATE coder/decoder written in the harness",
      {"N": 3}, {"N": 6}, budget=5000000,
      subst={"compress/flate.NewWriterDict": "VerifStubFlateNewWriterDict", "(*compress/flate.Writer).Write": "VerifStubFlateWrite",
             "(*compress/flate.Writer).Flush": "VerifStubFlateFlush", "(*compress/flate.Writer).Close": "VerifStubFlateClose",
             "compress/flate.NewReaderDict": "VerifStubFlateNewReaderDict"})],
    stubs=["compress/flate (NewWriterDict, Writer.Write/Flush/Close, NewReaderDict): stored-block stand-in, see harness; natively the real compress/flate runs during replay"],
    outside=["DEFLATE compression itself (hash chains and Huffman coding over symbolic data are out of the solver's reach)", "scripts longer than N bytes"])
for k, v in C.items():
    v = dict(id=k, **v)
    json.dump(v, open(os.path.join(root, "checks", k + ".json"), "w"), indent=1)
print("wrote", sorted(C))
