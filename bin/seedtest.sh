#!/bin/sh
# dev helper: bin/seedtest.sh <seed-dir-name>...  applies each seeded change to /repo, runs the quick check of its
# property, reverts. Results are appended to /tmp/probe/seedtest.txt. Nothing else may use /repo meanwhile.
for sd in "$@"; do
  d=/verif/seeded/$sd
  prop=$(python3 -c "import json;print(json.load(open('$d/meta.json'))['property'])")
  if ! git -C /repo apply --check $d/patch.diff 2>/dev/null; then echo "$sd $prop patch does not apply" >> /tmp/probe/seedtest.txt; continue; fi
  git -C /repo apply $d/patch.diff
  s=$(date +%s)
  /verif/bin/check $prop --tier quick > /tmp/probe/seed_$sd.out 2> /tmp/probe/seed_$sd.err
  rc=$?
  e=$(date +%s)
  git -C /repo checkout -- .
  echo "$sd $prop exit=$rc wall=$((e-s))s $(grep -c VIOLATION /tmp/probe/seed_$sd.out) violations" >> /tmp/probe/seedtest.txt
done
