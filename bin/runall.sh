#!/bin/sh
# dev helper: bin/runall.sh <tier> <id>... ; sequential, logs under /tmp/probe/checks
mkdir -p /tmp/probe/checks
tier=$1; shift
for id in "$@"; do
  s=$(date +%s)
  /verif/bin/check $id --tier $tier > /tmp/probe/checks/$id.$tier.out 2> /tmp/probe/checks/$id.$tier.err
  rc=$?
  e=$(date +%s)
  echo "$id $tier exit=$rc wall=$((e-s))s $(grep -c VIOLATION /tmp/probe/checks/$id.$tier.out) violations" >> /tmp/probe/checks/summary.txt
done
