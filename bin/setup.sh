#!/bin/sh
# MANIFEST.setup_cmd: builds the gosx engine (bin/gosx is not committed) from
# /verif/engine with the Go toolchain /repo's go.mod requires; offline.
set -e
D="$(cd "$(dirname "$0")/.." && pwd)"
"$D/bin/build.sh"
test -x "$D/bin/gosx"
mkdir -p "$D/evidence" "$D/replays"
command -v z3 >/dev/null || { echo "setup: z3 not on PATH" >&2; exit 1; }
echo "setup: ok ($("$D/bin/gosx" version 2>/dev/null || echo gosx built))"
