#!/bin/sh
# dev helper: run ad-hoc harness and summarise
/verif/bin/gosx run "$@" 2>&1 | python3 -c "
import sys,json
t=sys.stdin.read()
try:
  i=t.index('{\n')
except ValueError:
  print(t); sys.exit(1)
print(t[:i])
d=json.loads(t[i:])
e=d.pop('EngineErr')
v=d.pop('Violations') or []
print(json.dumps(d))
for x in v[:5]: print('VIOL',json.dumps(x)[:600])
print(e[:4000])"
