#!/bin/sh
# dev helper: bin/probe.sh <pkgdir> <stem> <Func> [extra gosx run args]  -> /tmp/probe/<Func>.log (background)
pkg=$1; stem=$2; fn=$3; shift 3
mkdir -p /tmp/probe
extra=""
extra=",/verif/harness/d2compiler/zz_verif_proj.go,/verif/harness/d2compiler/zz_verif_fs.go"
nohup /verif/bin/r.sh -pkg oss.terrastruct.com/d2/$pkg -func $fn -file /verif/harness/$pkg/zz_verif_$stem.go$extra -initrun math/big,internal/oserror -wall 900s "$@" > /tmp/probe/$fn.log 2>&1 &
