package d2format

import (
	nd "oss.terrastruct.com/d2/internal/verifnd"
)

func VerifSmoke() {
	b := nd.Byte("b")
	nd.Assume(b < 100)
	x := int(b) * 2
	nd.Cover("reached")
	nd.Assert(x < 200, "x<200")
	if b == 7 {
		nd.Cover("seven")
		nd.Assert(x == 14, "x==14")
	}
	s := string([]byte{b, 'a'})
	if s == "ba" {
		nd.Cover("ba")
	}
	nd.Assert(x != 150, "x != 150 (should fail at b=75)")
}
