package d2format

import (
	"strings"

	"oss.terrastruct.com/d2/d2ast"
	"oss.terrastruct.com/d2/d2parser"
	nd "oss.terrastruct.com/d2/internal/verifnd"
)

// c03OneLine reports whether the file itself has two or more nodes on one line.
func c03OneLine(m *d2ast.Map) bool {
	return len(m.Nodes) >= 2 && m.Range.Start.Line == m.Range.End.Line
}

func c03Check(s string) {
	m, err := d2parser.Parse("f.d2", strings.NewReader(s), nil)
	if err != nil {
		nd.Cover("unparsable")
		return
	}
	if nd.Known("C03-one-line-file") && c03OneLine(m) {
		// recorded finding: `a;a` is printed as `a; a` followed by a newline, which makes
		// the file map span two lines, so the second pass prints one statement per line
		return
	}
	t1 := Format(m)
	nd.Cover("formatted")
	m2, err := d2parser.Parse("f.d2", strings.NewReader(t1), nil)
	nd.Assert(err == nil, "the formatted text parses without errors")
	t2 := Format(m2)
	nd.Assert(t2 == t1, "formatting the formatted text reproduces it byte for byte")
}

// VerifC03Short: every input of length <= N over a 16-character alphabet.
func VerifC03Short() {
	n := nd.Choose("len", 0, nd.Param("N", 3))
	c03Check(nd.From("s", n, "aA.-><:;{}'*\n &_"))
}
