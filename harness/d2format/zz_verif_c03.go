package d2format

import (
	"strings"

	"oss.terrastruct.com/d2/d2ast"
	"oss.terrastruct.com/d2/d2parser"
	nd "oss.terrastruct.com/d2/internal/verifnd"
)

// c03OneLine reports whether the file itself has two or more nodes on one line.
func c03OneLine(m *d2ast.Map) bool {
	return len(m.Nodes) >= 2 && m.Range.Start.Line == m.Range.End.Line
}

// c03ArrayClosedAfterSeparator: some array of the file is written on one line
// in the source (so it is printed on one line) and ends in a plain scalar.
func c03ArrayClosedAfterSeparator(n d2ast.Node) bool {
	if a, ok := n.(*d2ast.Array); ok && a.Range.OneLine() && len(a.Nodes) > 0 {
		last := a.Nodes[len(a.Nodes)-1]
		if last.UnquotedString != nil || last.Number != nil || last.Boolean != nil || last.Null != nil {
			return true
		}
	}
	for _, ch := range n.Children() {
		if c03ArrayClosedAfterSeparator(ch) {
			return true
		}
	}
	return false
}

func c03Check(s string) {
	m, err := d2parser.Parse("f.d2", strings.NewReader(s), nil)
	if err != nil {
		nd.Cover("unparsable")
		return
	}
	if nd.Known("C03-one-line-file") && c03OneLine(m) {
		// recorded finding: `a;a` is printed as `a; a` followed by a newline, which makes
		// the file map span two lines, so the second pass prints one statement per line
		return
	}
	if nd.Known("C03-array-closed-after-separator") && c03ArrayClosedAfterSeparator(m) {
		// recorded finding: `a: [x; ]` is printed on one line as `a: [x]`, but the parser
		// gives an array whose last element touches the closing bracket a range that
		// runs into the next line, so the second pass prints it over several lines
		return
	}
	if nd.Known("C03-trailing-escaped-space") && vTrailingEscapedSpace(s) {
		// recorded finding: an escaped white space at the end of an unquoted string is trimmed
		// from the raw text, which leaves the backslash in front of the line end
		return
	}
	t1 := Format(m)
	nd.Cover("formatted")
	m2, err := d2parser.Parse("f.d2", strings.NewReader(t1), nil)
	nd.Assert(err == nil, "the formatted text parses without errors")
	t2 := Format(m2)
	nd.Assert(t2 == t1, "formatting the formatted text reproduces it byte for byte")
}

// VerifC03Short: every input of length <= N over a 16-character alphabet.
func VerifC03Short() {
	n := nd.Choose("len", 0, nd.Param("N", 3))
	c03Check(nd.From("s", n, "aA.-><:;{}'*\n &_"))
}

// VerifC03Templates: constructs longer than the byte-level bound, with
// symbolic holes: board keywords with and without a value placed before and
// after other statements, double-quoted strings with substitutions and escapes
// around them, arrays, block strings, line and block comments next to keys,
// indexed connection fields, imports, a primary value next to a map.
func VerifC03Templates() {
	h := nd.From("h", nd.Choose("hl", 1, nd.Param("H", 2)), "aA\"\\n$ ;#|'")
	g := nd.From("g", nd.Choose("gl", 0, 1), "a\"\\ ")
	kw := []string{"layers", "scenarios", "steps"}[nd.Choose("kw", 0, 2)]
	var s string
	switch nd.Choose("tpl", 0, nd.Param("TPLS", 18)-1) {
	case 0:
		s = kw + "\n"
	case 1:
		s = kw + "\n" + h + "\n"
	case 2:
		s = kw + ": {l: {b}}\n" + h + "\n"
	case 3:
		s = h + "\n" + kw + ": {l: {b}}\nc\n"
	case 4:
		s = "vars: {v: 1}\na: \"" + g + "${v}" + h + "\"\n"
	case 5:
		s = "vars: {v: 1; w: 2}\na: \"${v}" + h + "${w}" + g + "\"\n"
	case 6:
		s = "a: [" + h + "; " + g + "]\n"
	case 7:
		s = "a: |md " + h + " |\nb: |`md " + g + "|`\n"
	case 8:
		s = "# " + h + "\na\n\"\"\" " + g + " \"\"\"\nb\n"
	case 9:
		s = "a; \"\"\" " + g + " \"\"\"\n"
	case 10:
		s = "a -> b\n(a -> b)[0].label: " + h + "\n"
	case 11:
		s = "x: @" + h + "\n...@" + g + "\n"
	case 12:
		s = "a: " + h + " {b}\n"
	case 13:
		s = "vars: {v: 1}\na: ${v}" + h + "\n"
	case 14: // quoted import paths, as a value and as a spread
		q := nd.From("q", nd.Choose("ql", 1, nd.Param("H", 2)+1), "a.:-/d2&")
		s = "x: @\"" + q + "\"\n...@\"" + q + "\"\n"
	case 15: // connection fields with and without index, with a key prefix
		s = "a -> b\nx: {c -> d}\n(a -> b)." + []string{"label", "style.opacity", "source-arrowhead.shape"}[nd.Choose("f", 0, 2)] + ": " + h + "\nx.(c -> d)[0].label: " + g + "\n"
	case 16: // block strings with blank and white-space-only lines
		ws := []string{"", " ", "  ", "    ", "\t"}[nd.Choose("ws", 0, 4)]
		s = "x: |md\n  a\n  " + ws + "\n  " + h + "\n|\n"
	case 17: // connection chains and reversed arrows with labels
		s = "a -> b <- c -- d: " + h + "\nb <-> a: " + g + "\n"
	}
	c03Check(s)
}

// vTrailingEscapedSpace: some unquoted text of s ends in an escaped white space
// (backslash, blank, then optional blanks up to a line end, closing brace or
// bracket, semicolon, comment or the end of the input).
func vTrailingEscapedSpace(s string) bool {
	for i := 0; i+1 < len(s); i++ {
		if s[i] != '\\' || (s[i+1] != ' ' && s[i+1] != '\t') {
			continue
		}
		j := i + 2
		for j < len(s) && (s[j] == ' ' || s[j] == '\t') {
			j++
		}
		if j == len(s) || s[j] == '\n' || s[j] == '}' || s[j] == ']' || s[j] == ';' || s[j] == '#' {
			return true
		}
	}
	return false
}
