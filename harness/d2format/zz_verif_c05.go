package d2format

import (
	"oss.terrastruct.com/d2/d2ast"
	"oss.terrastruct.com/d2/d2parser"
	nd "oss.terrastruct.com/d2/internal/verifnd"
)

func c05CheckValue(s string) {
	node := d2ast.RawString(s, false)
	txt := Format(node)
	v, err := d2parser.ParseValue(txt)
	nd.Cover("value-parsed")
	nd.Assert(err == nil, "generated value syntax must parse")
	switch v.(type) {
	case *d2ast.Null:
		nd.Fail("string value turned into null")
	case *d2ast.Boolean:
		nd.Fail("string value turned into a boolean")
	case *d2ast.Suspension:
		nd.Fail("string value turned into a suspension marker")
	}
	sc, ok := v.(d2ast.Scalar)
	nd.Assert(ok, "value is a scalar")
	nd.Assert(sc.ScalarString() == s, "value parses back to the same string")
}

// VerifC05Value: RawString(s, false) -> Format -> ParseValue yields the same string.
func VerifC05Value() {
	n := nd.Choose("len", 0, nd.Param("N", 2))
	s := nd.ASCII("s", n)
	c05CheckValue(s)
}

func c05CheckKey(s string) {
	node := d2ast.RawString(s, true)
	txt := Format(&d2ast.KeyPath{Path: []*d2ast.StringBox{d2ast.MakeValueBox(node).StringBox()}})
	k, err := d2parser.ParseKey(txt)
	nd.Cover("key-parsed")
	nd.Assert(err == nil, "generated key syntax must parse")
	nd.Assert(len(k.Path) == 1, "key has exactly one segment")
	nd.Assert(k.Path[0].Unbox().ScalarString() == s, "key segment parses back to the same string")
}

// VerifC05Key: RawString(s, true) as a single key segment -> Format -> ParseKey.
func VerifC05Key() {
	n := nd.Choose("len", 1, nd.Param("N", 2))
	s := nd.ASCII("s", n)
	c05CheckKey(s)
}
