package d2format

import (
	"strings"

	"oss.terrastruct.com/d2/d2ast"
	"oss.terrastruct.com/d2/d2parser"
	nd "oss.terrastruct.com/d2/internal/verifnd"
)

// c05Keyword: s spells a reserved keyword but not in lower case.
func c05KeywordCase(s string) bool {
	l := strings.ToLower(s)
	_, ok := d2ast.ReservedKeywords[l]
	return ok && l != s
}

func c05CheckValue(s string) {
	// Known findings (see /verif/known_findings.json): each assumes away exactly
	// the input class of one recorded defect, and only while its witness still fails.
	if nd.Known("C05-value-keyword-lowercased") {
		nd.Assume(!c05KeywordCase(s))
	}
	if nd.Known("C05-value-null-case") {
		nd.Assume(!(strings.EqualFold(s, "null") && s != "null"))
	}
	if nd.Known("C05-value-boolean") {
		nd.Assume(!strings.EqualFold(s, "true") && !strings.EqualFold(s, "false"))
	}
	if nd.Known("C05-value-suspend-case") {
		nd.Assume(!(strings.EqualFold(s, "suspend") && s != "suspend") && !(strings.EqualFold(s, "unsuspend") && s != "unsuspend"))
	}
	node := d2ast.RawString(s, false)
	txt := Format(node)
	v, err := d2parser.ParseValue(txt)
	nd.Cover("value-parsed")
	nd.Assert(err == nil, "generated value syntax must parse")
	switch v.(type) {
	case *d2ast.Null:
		nd.Fail("string value turned into null")
	case *d2ast.Boolean:
		nd.Fail("string value turned into a boolean")
	case *d2ast.Suspension:
		nd.Fail("string value turned into a suspension marker")
	}
	sc, ok := v.(d2ast.Scalar)
	nd.Assert(ok, "value is a scalar")
	nd.Assert(sc.ScalarString() == s, "value parses back to the same string")
}

// VerifC05Value: RawString(s, false) -> Format -> ParseValue yields the same string.
func VerifC05Value() {
	n := nd.Choose("len", 0, nd.Param("N", 2))
	s := nd.ASCII("s", n)
	c05CheckValue(s)
}

// VerifC05ValueWord: the same for every letter-case variant of the words the
// parser treats specially (null, true, false, suspend, unsuspend) and of
// reserved keywords, which are longer than the all-bytes bound reaches.
func VerifC05ValueWord() {
	words := []string{"null", "true", "false", "suspend", "unsuspend", "label", "shape", "near", "3d"}
	w := words[nd.Choose("word", 0, len(words)-1)]
	s := nd.CaseMask("case", w)
	c05CheckValue(s)
}

func c05CheckKey(s string) {
	if nd.Known("C05-key-keyword-lowercased") {
		nd.Assume(!c05KeywordCase(s))
	}
	node := d2ast.RawString(s, true)
	txt := Format(&d2ast.KeyPath{Path: []*d2ast.StringBox{d2ast.MakeValueBox(node).StringBox()}})
	k, err := d2parser.ParseKey(txt)
	nd.Cover("key-parsed")
	nd.Assert(err == nil, "generated key syntax must parse")
	nd.Assert(len(k.Path) == 1, "key has exactly one segment")
	nd.Assert(k.Path[0].Unbox().ScalarString() == s, "key segment parses back to the same string")
}

// VerifC05Key: RawString(s, true) as a single key segment -> Format -> ParseKey.
func VerifC05Key() {
	n := nd.Choose("len", 1, nd.Param("N", 2))
	s := nd.ASCII("s", n)
	c05CheckKey(s)
}

// VerifC05KeyWord: letter-case variants of special words as key segments.
func VerifC05KeyWord() {
	words := []string{"null", "true", "false", "suspend", "label", "shape", "3d"}
	w := words[nd.Choose("word", 0, len(words)-1)]
	s := nd.CaseMask("case", w)
	c05CheckKey(s)
}

// c05Rune draws an arbitrary code point as its UTF-8 encoding (surrogates,
// which cannot occur in a Go string, excluded).
func c05Rune(name string) string {
	r := nd.Rune(name)
	nd.Assume(r < 0xD800 || r > 0xDFFF)
	var b []byte
	switch {
	case r < 0x80:
		b = []byte{byte(r)}
	case r < 0x800:
		b = []byte{0xC0 | byte(r>>6), 0x80 | byte(r)&0x3F}
	case r < 0x10000:
		b = []byte{0xE0 | byte(r>>12), 0x80 | byte(r>>6)&0x3F, 0x80 | byte(r)&0x3F}
	default:
		b = []byte{0xF0 | byte(r>>18), 0x80 | byte(r>>12)&0x3F, 0x80 | byte(r>>6)&0x3F, 0x80 | byte(r)&0x3F}
	}
	return string(b)
}

// VerifC05Runes: strings with an arbitrary code point (every Unicode white
// space, control and astral character) at the start, at the end and in the
// middle, as key and as value.
func VerifC05Runes() {
	r := c05Rune("r")
	var s string
	switch nd.Choose("where", 0, 3) {
	case 0:
		s = r + "x"
	case 1:
		s = "x" + r
	case 2:
		s = "x" + r + "y"
	case 3:
		s = r
	}
	if nd.Bool("key") {
		c05CheckKey(s)
	} else {
		c05CheckValue(s)
	}
}

// VerifC05Special: longer strings made of D2's own syntax characters: every
// string of length <= NS over an 11-character alphabet, optionally followed by
// a plain letter (covers `...@x`, `@x`, `${x}`, `-`, `|x`, `a: b`, ...).
func VerifC05Special() {
	n := nd.Choose("len", 1, nd.Param("NS", 4))
	s := nd.From("s", n, ".@$-|:;#*{x")
	if nd.Bool("tail") {
		s += "x"
	}
	if nd.Bool("key") {
		c05CheckKey(s)
	} else {
		c05CheckValue(s)
	}
}
