package d2graph

import (
	"strings"

	nd "oss.terrastruct.com/d2/internal/verifnd"
)

// CSS named colours (CSS Color Module Level 4, section 6.1) plus the two
// keywords d2 documents; transcribed from the specification, not from
// lib/color, so that it can serve as the reference.
var c16CSSColors = strings.Fields(`aliceblue antiquewhite aqua aquamarine azure beige bisque black blanchedalmond blue
blueviolet brown burlywood cadetblue chartreuse chocolate coral cornflowerblue cornsilk crimson cyan darkblue darkcyan
darkgoldenrod darkgray darkgreen darkgrey darkkhaki darkmagenta darkolivegreen darkorange darkorchid darkred darksalmon
darkseagreen darkslateblue darkslategray darkslategrey darkturquoise darkviolet deeppink deepskyblue dimgray dimgrey
dodgerblue firebrick floralwhite forestgreen fuchsia gainsboro ghostwhite gold goldenrod gray green greenyellow grey
honeydew hotpink indianred indigo ivory khaki lavender lavenderblush lawngreen lemonchiffon lightblue lightcoral
lightcyan lightgoldenrodyellow lightgray lightgreen lightgrey lightpink lightsalmon lightseagreen lightskyblue
lightslategray lightslategrey lightsteelblue lightyellow lime limegreen linen magenta maroon mediumaquamarine
mediumblue mediumorchid mediumpurple mediumseagreen mediumslateblue mediumspringgreen mediumturquoise mediumvioletred
midnightblue mintcream mistyrose moccasin navajowhite navy oldlace olive olivedrab orange orangered orchid
palegoldenrod palegreen paleturquoise palevioletred papayawhip peachpuff peru pink plum powderblue purple
rebeccapurple red rosybrown royalblue saddlebrown salmon sandybrown seagreen seashell sienna silver skyblue slateblue
slategray slategrey snow springgreen steelblue tan teal thistle tomato turquoise violet wheat white whitesmoke yellow
yellowgreen transparent currentcolor`)

func c16IsCSSColor(s string) bool {
	for _, c := range c16CSSColors {
		if strings.EqualFold(c, s) {
			return true
		}
	}
	return false
}

// c16Spelling draws a letter-case variant of word: lower case, upper case,
// capitalised, or lower case with the letter at one chosen position in upper
// case (a fully symbolic case mask makes strings.ToLower fork 2^len ways).
func c16Spelling(word string) string {
	switch nd.Choose("spell", 0, 3) {
	case 0:
		return word
	case 1:
		return strings.ToUpper(word)
	case 2:
		return strings.ToUpper(word[:1]) + word[1:]
	}
	p := nd.Choose("up", 0, len(word)-1)
	return word[:p] + strings.ToUpper(word[p:p+1]) + word[p+1:]
}

func c16ColorAttr(s *Style) (string, *Scalar) {
	switch nd.Choose("cattr", 0, 2) {
	case 0:
		return "fill", s.Fill
	case 1:
		return "stroke", s.Stroke
	}
	return "font-color", s.FontColor
}

// VerifC16Named: every CSS named colour is accepted in every letter case and
// stored unchanged; the same word with one letter replaced is accepted
// exactly when it is again a named colour.
func VerifC16Named() {
	i := nd.Choose("word", nd.Param("W0", 0), nd.Param("W1", len(c16CSSColors)-1))
	w := c16Spelling(c16CSSColors[i])
	s := &Style{Fill: &Scalar{}, Stroke: &Scalar{}, FontColor: &Scalar{}}
	key, field := c16ColorAttr(s)
	if nd.Param("PERTURB", 0) > 0 && nd.Bool("perturb") {
		p := nd.Choose("pos", 0, len(w)-1)
		c := nd.From("ch", 1, "abcdeghiklmnoprstuwyAEI-1 ")
		b := []byte(w)
		b[p] = c[0]
		w = string(b)
	}
	err := s.Apply(key, w)
	want := c16IsCSSColor(w)
	nd.Cover("applied")
	if want {
		nd.Cover("in-domain")
	}
	nd.Assert((err == nil) == want, "a colour name is accepted exactly when it is a CSS named colour (any letter case)")
	if err == nil {
		nd.Assert(field.Value == w, "an accepted colour is stored unchanged")
	}
}

// VerifC16Hex: #rgb and #rrggbb with hexadecimal digits are accepted, every
// other #-string is rejected.
func VerifC16Hex() {
	n := nd.Choose("len", 0, nd.Param("NH", 7))
	v := "#" + nd.From("h", n, "09afAFgG #")
	s := &Style{Fill: &Scalar{}, Stroke: &Scalar{}, FontColor: &Scalar{}}
	key, field := c16ColorAttr(s)
	err := s.Apply(key, v)
	want := n == 3 || n == 6
	for j := 1; j < len(v); j++ {
		c := v[j]
		if !((c >= '0' && c <= '9') || (c >= 'a' && c <= 'f') || (c >= 'A' && c <= 'F')) {
			want = false
		}
	}
	nd.Cover("applied")
	if want {
		nd.Cover("in-domain")
	}
	nd.Assert((err == nil) == want, "a # colour is accepted exactly when it has 3 or 6 hexadecimal digits")
	if err == nil {
		nd.Assert(field.Value == v, "an accepted colour is stored unchanged")
	}
}

// VerifC16Enum: keyword-valued and boolean style attributes.
func VerifC16Enum() {
	s := &Style{FillPattern: &Scalar{}, TextTransform: &Scalar{}, Font: &Scalar{}, Shadow: &Scalar{}, ThreeDee: &Scalar{},
		Multiple: &Scalar{}, Bold: &Scalar{}, Italic: &Scalar{}, Underline: &Scalar{}, Animated: &Scalar{}, Filled: &Scalar{}, DoubleBorder: &Scalar{}}
	var key string
	var field *Scalar
	var domain []string
	exactCase := false
	lowered := false
	switch nd.Choose("attr", 0, 2) {
	case 0:
		key, field, domain = "fill-pattern", s.FillPattern, []string{"none", "dots", "lines", "grain", "paper"}
	case 1:
		key, field, domain = "text-transform", s.TextTransform, []string{"none", "uppercase", "lowercase", "capitalize"}
	default:
		bools := []string{"shadow", "3d", "multiple", "bold", "italic", "underline", "animated", "filled", "double-border"}
		fields := []*Scalar{s.Shadow, s.ThreeDee, s.Multiple, s.Bold, s.Italic, s.Underline, s.Animated, s.Filled, s.DoubleBorder}
		k := nd.Choose("battr", 0, len(bools)-1)
		key, field = bools[k], fields[k]
		// the documented boolean spellings (strconv.ParseBool)
		domain, exactCase = []string{"1", "t", "T", "TRUE", "true", "True", "0", "f", "F", "FALSE", "false", "False"}, true
	}
	var v string
	if nd.Bool("word") {
		words := append(append([]string{}, domain...), "true", "false", "none", "mono", "dots")
		v = c16Spelling(words[nd.Choose("w", 0, len(words)-1)])
		if nd.Bool("tail") {
			v += nd.From("t", 1, "s e1")
		}
	} else {
		v = nd.From("v", nd.Choose("len", 0, 2), "tTfF01noNe ")
	}
	want := false
	for _, d := range domain {
		if v == d || (!exactCase && strings.EqualFold(v, d)) {
			want = true
		}
	}
	err := s.Apply(key, v)
	nd.Cover("applied")
	if want {
		nd.Cover("in-domain")
	}
	nd.Assert((err == nil) == want, "a keyword or boolean style value is accepted exactly when it is in the documented domain")
	if err == nil {
		if lowered {
			nd.Assert(field.Value == strings.ToLower(v), "an accepted keyword is stored up to letter case")
		} else {
			nd.Assert(field.Value == v, "an accepted value is stored unchanged")
		}
	}
}
