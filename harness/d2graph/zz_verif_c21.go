package d2graph

import (
	"errors"

	"oss.terrastruct.com/d2/d2target"
	"oss.terrastruct.com/d2/lib/geo"
	nd "oss.terrastruct.com/d2/internal/verifnd"
)

// The explicit width/height attributes are strings; the engine executes this
// function in place of strconv.Atoi so that the harness can hand symbolic
// integers through the placeholders "W" and "H" (formatting a symbolic integer
// as decimal text would fork on every digit).
var c21W, c21H int

func VerifStubAtoi(s string) (int, error) {
	switch s {
	case "W":
		return c21W, nil
	case "H":
		return c21H, nil
	}
	return 0, errors.New("c21: unexpected Atoi argument")
}

// VerifC21Explicit: a leaf shape with explicit width and height gets exactly
// that size (squares and circles the larger of the two for both; tables,
// classes and code never shrink below their content).
func VerifC21Explicit() {
	shapes := []string{d2target.ShapeRectangle, d2target.ShapeSquare, d2target.ShapeCircle, d2target.ShapeDiamond, d2target.ShapeHexagon,
		d2target.ShapePage, d2target.ShapeParallelogram, d2target.ShapeQueue, d2target.ShapeCylinder, d2target.ShapeStep, d2target.ShapeCallout,
		d2target.ShapeStoredData, d2target.ShapeText, d2target.ShapeImage, d2target.ShapeClass, d2target.ShapeSQLTable, d2target.ShapeCode}
	si := nd.Choose("shape", 0, nd.Param("SHAPES", len(shapes))-1)
	obj := &Object{Box: geo.NewBox(geo.NewPoint(0, 0), 0, 0)}
	obj.Shape.Value = shapes[si]
	switch shapes[si] {
	case d2target.ShapeClass:
		obj.Class = &d2target.Class{}
	case d2target.ShapeSQLTable:
		obj.SQLTable = &d2target.SQLTable{}
	case d2target.ShapeCode:
		obj.Language = "go"
	}
	c21W = nd.IntRange("w", 1, 4096)
	c21H = nd.IntRange("h", 1, 4096)
	obj.WidthAttr = &Scalar{Value: "W"}
	obj.HeightAttr = &Scalar{Value: "H"}
	cw := nd.Dyadic("cw", 1, 2048, 1)
	ch := nd.Dyadic("ch", 1, 2048, 1)
	px := nd.Dyadic("px", 0, 128, 1)
	py := nd.Dyadic("py", 0, 128, 1)
	obj.SizeToContent(cw, ch, px, py)
	nd.Cover("sized")
	w, h := float64(c21W), float64(c21H)
	switch shapes[si] {
	case d2target.ShapeSquare, d2target.ShapeCircle:
		m := w
		if h > m {
			m = h
		}
		nd.Assert(obj.Width == m && obj.Height == m, "squares and circles use the larger explicit dimension for both")
	case d2target.ShapeClass, d2target.ShapeSQLTable, d2target.ShapeCode:
		nd.Assert(obj.Width >= w && obj.Height >= h, "tables, classes and code are at least as large as requested")
		nd.Assert(obj.Width >= cw+px && obj.Height >= ch+py, "tables, classes and code never shrink below their content")
		nd.Assert(obj.Width == w || obj.Width < cw+px+1, "the width is the requested one unless the content needs more")
		nd.Assert(obj.Height == h || obj.Height < ch+py+1, "the height is the requested one unless the content needs more")
	default:
		nd.Assert(obj.Width == w && obj.Height == h, "an explicit width and height are honoured exactly")
	}
}
