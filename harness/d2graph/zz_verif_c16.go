package d2graph

import (
	"strconv"

	nd "oss.terrastruct.com/d2/internal/verifnd"
)

// c16RefInt: reference reading of a decimal integer (optional sign, digits only).
func c16RefInt(v string) (int, bool) {
	i := 0
	neg := false
	if len(v) > 0 && (v[0] == '+' || v[0] == '-') {
		neg = v[0] == '-'
		i = 1
	}
	if i == len(v) {
		return 0, false
	}
	n := 0
	for ; i < len(v); i++ {
		if v[i] < '0' || v[i] > '9' {
			return 0, false
		}
		n = n*10 + int(v[i]-'0')
	}
	if neg {
		n = -n
	}
	return n, true
}

// VerifC16Int: the integer-valued style attributes are accepted exactly on
// their documented ranges and stored unchanged.
func VerifC16Int() {
	n := nd.Choose("len", 0, nd.Param("N", 3))
	v := nd.ASCII("v", n)
	s := &Style{StrokeWidth: &Scalar{}, StrokeDash: &Scalar{}, BorderRadius: &Scalar{}, FontSize: &Scalar{}}
	var key string
	var lo, hi int
	var field *Scalar
	switch nd.Choose("attr", 0, 3) {
	case 0:
		key, lo, hi, field = "stroke-width", 0, 15, s.StrokeWidth
	case 1:
		key, lo, hi, field = "stroke-dash", 0, 10, s.StrokeDash
	case 2:
		key, lo, hi, field = "border-radius", 0, 1<<40, s.BorderRadius
	case 3:
		key, lo, hi, field = "font-size", 8, 100, s.FontSize
	}
	err := s.Apply(key, v)
	x, isInt := c16RefInt(v)
	want := isInt && x >= lo && x <= hi
	nd.Cover("applied")
	if want {
		nd.Cover("in-domain")
	}
	nd.Assert((err == nil) == want, "an integer style value is accepted exactly when it lies in the documented range")
	if err == nil {
		nd.Assert(field.Value == v, "an accepted value is stored unchanged")
	} else {
		nd.Assert(field.Value == "", "a rejected value is not stored")
	}
}

// VerifC16Opacity: opacity is accepted exactly for numbers in [0,1].
func VerifC16Opacity() {
	n := nd.Choose("len", 0, nd.Param("NF", 3))
	v := nd.From("v", n, "01.5-+eEnNaAiIfF9")
	s := &Style{Opacity: &Scalar{}}
	err := s.Apply("opacity", v)
	f, perr := strconv.ParseFloat(v, 64)
	want := perr == nil && f >= 0 && f <= 1
	if nd.Known("C16-opacity-nan") {
		nd.Assume(!(perr == nil && f != f))
	}
	nd.Cover("applied")
	if want {
		nd.Cover("in-domain")
	}
	nd.Assert((err == nil) == want, "opacity is accepted exactly when it is a number in [0,1]")
	if err == nil {
		nd.Assert(s.Opacity.Value == v, "an accepted value is stored unchanged")
	}
}
