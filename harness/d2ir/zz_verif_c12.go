package d2ir

import (
	"oss.terrastruct.com/d2/d2ast"
	nd "oss.terrastruct.com/d2/internal/verifnd"
)

func c12Lower(c byte) byte {
	if c >= 'A' && c <= 'Z' {
		return c + 32
	}
	return c
}

// c12Ref: reference glob match, ASCII case-insensitive, "*" matches any (possibly empty) run.
func c12Ref(s string, pattern []string) bool {
	if len(pattern) == 0 {
		return s == ""
	}
	if pattern[0] == "*" {
		for k := 0; k <= len(s); k++ {
			if c12Ref(s[k:], pattern[1:]) {
				return true
			}
		}
		return false
	}
	p := pattern[0]
	if len(s) < len(p) {
		return false
	}
	for i := 0; i < len(p); i++ {
		if c12Lower(s[i]) != c12Lower(p[i]) {
			return false
		}
	}
	return c12Ref(s[len(p):], pattern[1:])
}

func c12Lit(name string, max int) string {
	n := nd.Choose(name+"len", 1, max)
	s := nd.ASCII(name, n)
	for i := 0; i < len(s); i++ {
		nd.Assume(s[i] != '*')
	}
	return s
}

// VerifC12Match: matchPattern(name, pattern) agrees with glob semantics for
// every ASCII name of length <= N and every pattern of the five shapes
// *, p*, *p, p*q, *p* with literals of length 1..L.
func VerifC12Match() {
	n := nd.Choose("len", 0, nd.Param("N", 3))
	s := nd.ASCII("s", n)
	L := nd.Param("L", 2)
	var pattern []string
	switch nd.Choose("shape", 0, 4) {
	case 0:
		pattern = []string{"*"}
	case 1:
		pattern = []string{c12Lit("p", L), "*"}
	case 2:
		pattern = []string{"*", c12Lit("p", L)}
	case 3:
		pattern = []string{c12Lit("p", L), "*", c12Lit("q", L)}
	case 4:
		pattern = []string{"*", c12Lit("p", L), "*"}
	}
	if _, ok := d2ast.ReservedKeywords[s]; ok {
		nd.Cover("reserved")
		nd.Assert(!matchPattern(s, pattern), "globs never match reserved keywords")
		return
	}
	got := matchPattern(s, pattern)
	want := c12Ref(s, pattern)
	nd.Cover("compared")
	if nd.Known("C12-literal-tail-not-anchored") && pattern[len(pattern)-1] != "*" && !want {
		// recorded finding: after the last literal the rest of the name is ignored, i.e. the
		// pattern is matched against a prefix of the name; exactly that verdict is tolerated
		prefix := false
		for k := 0; k <= len(s); k++ {
			if c12Ref(s[:k], pattern) {
				prefix = true
			}
		}
		nd.Assert(got == prefix, "matchPattern agrees with case-insensitive glob matching of the whole name (or, per the recorded finding, of a prefix of it)")
		return
	}
	nd.Assert(got == want, "matchPattern agrees with case-insensitive glob matching of the whole name")
}

// VerifC12Wide: names holding one arbitrary two-byte UTF-8 character c followed
// by an ASCII letter, against *x, c* and *c*: lowering c may change its byte
// length (U+023A), which must neither crash the matcher nor change the verdict.
func VerifC12Wide() {
	b0 := nd.Byte("c0")
	b1 := nd.Byte("c1")
	nd.Assume(b0 >= 0xC2 && b0 <= 0xDF && b1 >= 0x80 && b1 <= 0xBF)
	c := string([]byte{b0, b1})
	s := c + "x"
	nd.Cover("wide")
	nd.Assert(matchPattern(s, []string{"*", "x"}), "*x matches a name ending in x")
	nd.Assert(matchPattern(s, []string{c, "*"}), "c* matches a name starting with c")
	nd.Assert(matchPattern(s, []string{"*", c, "*"}), "*c* matches a name containing c")
	nd.Assert(!matchPattern(s, []string{"*", "y"}), "*y does not match a name without y")
}
