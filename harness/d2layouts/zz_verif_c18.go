package d2layouts

import (
	"context"
	"strconv"
	"strings"

	"oss.terrastruct.com/d2/d2compiler"
	"oss.terrastruct.com/d2/d2graph"
	"oss.terrastruct.com/d2/lib/geo"
	nd "oss.terrastruct.com/d2/internal/verifnd"
)

// c18Core stands in for dagre/ELK (JavaScript, out of reach): it gives every
// object of the graph it is handed a box and every connection a two-point
// route, with sizes drawn symbolically, and changes nothing else.
func c18Core(ctx context.Context, g *d2graph.Graph) error {
	x := 0.
	for _, o := range g.Objects {
		if len(o.ChildrenArray) == 0 {
			o.TopLeft = geo.NewPoint(x, 0)
			x += o.Width + 50
		}
	}
	for i := len(g.Objects) - 1; i >= 0; i-- {
		o := g.Objects[i]
		if len(o.ChildrenArray) == 0 {
			continue
		}
		first := true
		var x0, y0, x1, y1 float64
		for _, c := range o.ChildrenArray {
			if first || c.TopLeft.X < x0 {
				x0 = c.TopLeft.X
			}
			if first || c.TopLeft.Y < y0 {
				y0 = c.TopLeft.Y
			}
			if first || c.TopLeft.X+c.Width > x1 {
				x1 = c.TopLeft.X + c.Width
			}
			if first || c.TopLeft.Y+c.Height > y1 {
				y1 = c.TopLeft.Y + c.Height
			}
			first = false
		}
		o.Box = geo.NewBox(geo.NewPoint(x0-20, y0-20), x1-x0+40, y1-y0+40)
	}
	for _, e := range g.Edges {
		e.Route = []*geo.Point{e.Src.Center(), e.Dst.Center()}
	}
	return nil
}

func c18Router(ctx context.Context, g *d2graph.Graph, edges []*d2graph.Edge) error {
	for _, e := range edges {
		e.Route = []*geo.Point{e.Src.Center(), e.Dst.Center()}
	}
	return nil
}

func c18Snapshot(g *d2graph.Graph) string {
	var b strings.Builder
	for _, o := range g.Objects {
		p := "<root>"
		if o.Parent != nil && o.Parent != g.Root {
			p = o.Parent.AbsID()
		}
		b.WriteString("obj " + o.AbsID() + " parent=" + p + " children=" + strconv.Itoa(len(o.ChildrenArray)) + "\n")
		for _, c := range o.ChildrenArray {
			b.WriteString("  child " + c.AbsID() + "\n")
		}
	}
	for _, c := range g.Root.ChildrenArray {
		b.WriteString("top " + c.AbsID() + "\n")
	}
	for _, e := range g.Edges {
		if strings.Contains(e.Dst.ID, "-lifeline-end-") {
			// the lifeline a sequence diagram draws under each actor is a
			// drawing primitive d2sequence appends as an edge by design
			continue
		}
		b.WriteString("edge " + e.AbsID() + " src=" + e.Src.AbsID() + " dst=" + e.Dst.AbsID() + "\n")
	}
	return b.String()
}

func c18Kind(name string, withSeq bool) string {
	hi := 2
	if withSeq {
		hi = 3
	}
	switch nd.Choose(name, 0, hi) {
	case 1:
		return " grid-rows: 2\n"
	case 2:
		return " grid-columns: 2\n"
	case 3:
		return " shape: sequence_diagram\n"
	}
	return ""
}

// VerifC18Structure: layout never adds, drops, duplicates or re-parents
// objects or connections, including the content of grids, sequence diagrams
// and constant-near groups that are laid out separately and re-injected.
// The diagram is drawn from a family of nestings: an outer container (plain,
// grid or sequence diagram, optionally near a constant), an inner container
// (plain, grid or sequence diagram), and a set of optional connections that
// stay inside, cross one boundary or cross two.
func VerifC18Structure() {
	var b strings.Builder
	b.WriteString("A: {\n")
	b.WriteString(c18Kind("outer", true))
	if nd.Bool("near") {
		b.WriteString(" near: top-center\n")
	}
	b.WriteString(" a1\n a2\n c: {\n ")
	b.WriteString(c18Kind("inner", true))
	b.WriteString("  x\n  y\n")
	if nd.Bool("e_inner") {
		b.WriteString("  x -> y: l\n")
	}
	if nd.Bool("group") {
		// a nested container declared before a later sibling (in a sequence
		// diagram: a group declared before one of its actors)
		b.WriteString("  grp: {\n   x -> y: gi\n  }\n  late\n  y -> late\n")
	}
	if nd.Param("DEEP", 0) > 0 {
		// a third level: grid inside sequence inside container and the like
		switch nd.Choose("deep", 0, 3) {
		case 1:
			b.WriteString("  d: {\n   p\n   q\n   p -> q\n  }\n  d.p -> x\n")
		case 2:
			b.WriteString("  d: {\n   grid-rows: 2\n   p\n   q\n   r\n   p -> q\n  }\n")
		case 3:
			b.WriteString("  d: {\n   shape: sequence_diagram\n   p\n   q\n   p -> q: m\n   q -> p\n  }\n")
		}
	}
	b.WriteString(" }\n")
	switch nd.Choose("e_mid", 0, 2) {
	case 1:
		b.WriteString(" a1 -> c.x\n a2 -> a1\n")
	case 2: // parallel connections crossing the inner boundary, both directions
		b.WriteString(" a1 -> c.x: one\n a1 -> c.x: two\n c.x -> a1\n a1 <- c.x: back\n")
	}
	b.WriteString("}\nz\nw: {v}\n")
	if nd.Param("NEAR2", 0) > 0 {
		// a second constant-near group with its own special diagram
		switch nd.Choose("near2", 0, 3) {
		case 1:
			b.WriteString("N: {\n near: bottom-right\n n1 -> n2\n}\n")
		case 2:
			b.WriteString("N: {\n near: bottom-right\n grid-columns: 2\n n1\n n2\n n3: {k}\n n1 -> n2\n}\n")
		case 3:
			b.WriteString("N: {\n near: center-left\n shape: sequence_diagram\n n1 -> n2\n n2 -> n1\n}\n")
		}
	}
	switch nd.Choose("e_out", 0, 4) {
	case 1:
		b.WriteString("z -> A\nw.v -> z\n")
	case 2:
		b.WriteString("z -> A.a1\n")
	case 3:
		b.WriteString("w.v -> A.c.y\nA.c -> z\n")
	case 4: // parallel connections crossing the outer boundary
		b.WriteString("z -> A.a1: one\nz -> A.a1: two\nA.a1 -> z\nz <- A.a1: back\n")
	}
	text := b.String()
	nd.Observe(text)
	g, _, err := d2compiler.Compile("index.d2", strings.NewReader(text), nil)
	if err != nil {
		nd.Cover("rejected-by-compiler")
		return
	}
	// sizes a text measurer and SetDimensions would have set
	prof := nd.Choose("sizes", 0, nd.Param("SIZES", 2)-1)
	for i, o := range g.Objects {
		o.LabelDimensions.Width, o.LabelDimensions.Height = 20, 10
		o.Box = geo.NewBox(geo.NewPoint(0, 0), float64(40+(i*37+prof*53)%120), float64(30+(i*23+prof*31)%90))
	}
	for _, e := range g.Edges {
		e.LabelDimensions.Width, e.LabelDimensions.Height = 20, 10
	}
	before := c18Snapshot(g)
	err = LayoutNested(context.Background(), g, GraphInfo{}, c18Core, c18Router)
	if err != nil {
		nd.Cover("layout-error: " + err.Error())
		return
	}
	nd.Cover("laid-out")
	after := c18Snapshot(g)
	nd.Assert(after == before, "layout changed the objects, their parents, their order or the connections' endpoints")
	inGraph := map[*d2graph.Object]bool{g.Root: true}
	seen := map[string]bool{}
	for _, o := range g.Objects {
		nd.Assert(o.Box != nil && o.TopLeft != nil, "every object has a position after layout")
		nd.Assert(!seen[o.AbsID()], "an object appears twice after layout")
		seen[o.AbsID()] = true
		inGraph[o] = true
	}
	for _, o := range g.Objects {
		nd.Assert(o.Graph == g, "an object still belongs to a temporary nested graph after layout")
		nd.Assert(inGraph[o.Parent], "an object's parent is not an object of the board after layout")
		for _, c := range o.ChildrenArray {
			nd.Assert(inGraph[c] && c.Parent == o, "a container lists a child that is not its child in the board")
		}
		for k, c := range o.Children {
			nd.Assert(inGraph[c] && strings.EqualFold(k, c.ID), "a container's child index names an object that is not in the board")
		}
	}
	for _, e := range g.Edges {
		nd.Assert(inGraph[e.Src] && inGraph[e.Dst] || strings.Contains(e.Dst.ID, "-lifeline-end-"), "a connection ends at an object that is not in the board after layout")
	}
	for _, e := range g.Edges {
		nd.Assert(len(e.Route) >= 2, "every connection has a route of at least two points")
	}
}
