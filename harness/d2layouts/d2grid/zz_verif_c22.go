package d2grid

import (
	"strconv"
	"strings"

	"oss.terrastruct.com/d2/d2compiler"
	"oss.terrastruct.com/d2/d2graph"
	"oss.terrastruct.com/d2/lib/geo"
	nd "oss.terrastruct.com/d2/internal/verifnd"
)

// VerifC22Even: a grid with both rows and columns given places its cells in
// declaration order along rows (or columns, whichever keyword comes first),
// without overlap, separated by exactly the configured gaps, inside the grid,
// with equal heights per row and equal widths per column.
func VerifC22Even() {
	rows := nd.Choose("rows", 1, nd.Param("R", 2))
	cols := nd.Choose("cols", 1, nd.Param("C", 3))
	n := nd.Choose("cells", 1, rows*cols)
	rowFirst := nd.Bool("rowfirst")
	hgap := []int{0, 7, 40}[nd.Choose("hgap", 0, 2)]
	vgap := []int{0, 12, 40}[nd.Choose("vgap", 0, 2)]
	var sb strings.Builder
	sb.WriteString("g: {\n")
	if rowFirst {
		sb.WriteString(" grid-rows: " + strconv.Itoa(rows) + "\n grid-columns: " + strconv.Itoa(cols) + "\n")
	} else {
		sb.WriteString(" grid-columns: " + strconv.Itoa(cols) + "\n grid-rows: " + strconv.Itoa(rows) + "\n")
	}
	sb.WriteString(" horizontal-gap: " + strconv.Itoa(hgap) + "\n vertical-gap: " + strconv.Itoa(vgap) + "\n")
	for i := 0; i < n; i++ {
		sb.WriteString(" c" + strconv.Itoa(i) + "\n")
	}
	sb.WriteString("}\n")
	g, _, err := d2compiler.Compile("index.d2", strings.NewReader(sb.String()), nil)
	nd.Assert(err == nil, "the grid compiles")
	var grid *d2graph.Object
	for _, o := range g.Objects {
		if o.AbsID() == "g" {
			grid = o
		}
	}
	nd.Assert(grid != nil && len(grid.ChildrenArray) == n, "the grid has its cells")
	grid.Box = geo.NewBox(geo.NewPoint(0, 0), 0, 0)
	for i, c := range grid.ChildrenArray {
		c.Box = geo.NewBox(geo.NewPoint(0, 0), nd.Dyadic("w"+strconv.Itoa(i), 8, 2048, 1), nd.Dyadic("h"+strconv.Itoa(i), 8, 2048, 1))
	}
	gd, err := layoutGrid(g, grid)
	nd.Assert(err == nil && gd != nil, "layout succeeds")
	nd.Cover("laid-out")
	cells := grid.ChildrenArray
	rc := func(k int) (int, int) { // row and column of the k-th declared cell
		if rowFirst {
			return k / cols, k % cols
		}
		return k % rows, k / rows
	}
	for i, a := range cells {
		ri, ci := rc(i)
		nd.Assert(nd.And(a.TopLeft.X >= 0, a.TopLeft.Y >= 0, a.TopLeft.X+a.Width <= gd.width, a.TopLeft.Y+a.Height <= gd.height), "a cell lies outside the grid")
		for j := i + 1; j < len(cells); j++ {
			b := cells[j]
			rj, cj := rc(j)
			disjoint := nd.Or(a.TopLeft.X+a.Width <= b.TopLeft.X, b.TopLeft.X+b.Width <= a.TopLeft.X, a.TopLeft.Y+a.Height <= b.TopLeft.Y, b.TopLeft.Y+b.Height <= a.TopLeft.Y)
			nd.Assert(disjoint, "two cells overlap")
			if ri == rj {
				nd.Assert(nd.And(a.TopLeft.Y == b.TopLeft.Y, a.Height == b.Height), "cells of a row have the same top and height")
				if cj == ci+1 {
					nd.Assert(b.TopLeft.X == a.TopLeft.X+a.Width+float64(hgap), "neighbours in a row are separated by exactly the horizontal gap, in declaration order")
				}
			}
			if ci == cj {
				nd.Assert(nd.And(a.TopLeft.X == b.TopLeft.X, a.Width == b.Width), "cells of a column have the same left edge and width")
				if rj == ri+1 {
					nd.Assert(b.TopLeft.Y == a.TopLeft.Y+a.Height+float64(vgap), "neighbours in a column are separated by exactly the vertical gap, in declaration order")
				}
			}
		}
	}
}
