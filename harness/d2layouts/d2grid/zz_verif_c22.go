package d2grid

import (
	"strconv"
	"strings"

	"oss.terrastruct.com/d2/d2compiler"
	"oss.terrastruct.com/d2/d2graph"
	"oss.terrastruct.com/d2/lib/geo"
	nd "oss.terrastruct.com/d2/internal/verifnd"
)

// VerifC22Even: a grid with both rows and columns given places its cells in
// declaration order along rows (or columns, whichever keyword comes first),
// without overlap, separated by exactly the configured gaps, inside the grid,
// with equal heights per row and equal widths per column.
func VerifC22Even() {
	rows := nd.Choose("rows", 1, nd.Param("R", 2))
	cols := nd.Choose("cols", 1, nd.Param("C", 3))
	// more cells than rows x columns make the grid grow along its direction
	n := nd.Choose("cells", 1, rows*cols+nd.Param("OVER", 0))
	rowFirst := nd.Bool("rowfirst")
	hgap := []int{0, 7, 40}[nd.Choose("hgap", 0, 2)]
	vgap := []int{0, 12, 40}[nd.Choose("vgap", 0, 2)]
	var sb strings.Builder
	sb.WriteString("g: {\n")
	if rowFirst {
		sb.WriteString(" grid-rows: " + strconv.Itoa(rows) + "\n grid-columns: " + strconv.Itoa(cols) + "\n")
	} else {
		sb.WriteString(" grid-columns: " + strconv.Itoa(cols) + "\n grid-rows: " + strconv.Itoa(rows) + "\n")
	}
	sb.WriteString(" horizontal-gap: " + strconv.Itoa(hgap) + "\n vertical-gap: " + strconv.Itoa(vgap) + "\n")
	for i := 0; i < n; i++ {
		sb.WriteString(" c" + strconv.Itoa(i) + "\n")
	}
	sb.WriteString("}\n")
	g, _, err := d2compiler.Compile("index.d2", strings.NewReader(sb.String()), nil)
	nd.Assert(err == nil, "the grid compiles")
	var grid *d2graph.Object
	for _, o := range g.Objects {
		if o.AbsID() == "g" {
			grid = o
		}
	}
	nd.Assert(grid != nil && len(grid.ChildrenArray) == n, "the grid has its cells")
	grid.Box = geo.NewBox(geo.NewPoint(0, 0), 0, 0)
	for i, c := range grid.ChildrenArray {
		c.Box = geo.NewBox(geo.NewPoint(0, 0), nd.Dyadic("w"+strconv.Itoa(i), 8, 2048, 1), nd.Dyadic("h"+strconv.Itoa(i), 8, 2048, 1))
	}
	gd, err := layoutGrid(g, grid)
	nd.Assert(err == nil && gd != nil, "layout succeeds")
	nd.Cover("laid-out")
	cells := grid.ChildrenArray
	rc := func(k int) (int, int) { // row and column of the k-th declared cell
		if rowFirst {
			return k / cols, k % cols
		}
		return k % rows, k / rows
	}
	for i, a := range cells {
		ri, ci := rc(i)
		nd.Assert(nd.And(a.TopLeft.X >= 0, a.TopLeft.Y >= 0, a.TopLeft.X+a.Width <= gd.width, a.TopLeft.Y+a.Height <= gd.height), "a cell lies outside the grid")
		for j := i + 1; j < len(cells); j++ {
			b := cells[j]
			rj, cj := rc(j)
			disjoint := nd.Or(a.TopLeft.X+a.Width <= b.TopLeft.X, b.TopLeft.X+b.Width <= a.TopLeft.X, a.TopLeft.Y+a.Height <= b.TopLeft.Y, b.TopLeft.Y+b.Height <= a.TopLeft.Y)
			nd.Assert(disjoint, "two cells overlap")
			if ri == rj {
				nd.Assert(nd.And(a.TopLeft.Y == b.TopLeft.Y, a.Height == b.Height), "cells of a row have the same top and height")
				if cj == ci+1 {
					nd.Assert(b.TopLeft.X == a.TopLeft.X+a.Width+float64(hgap), "neighbours in a row are separated by exactly the horizontal gap, in declaration order")
				}
			}
			if ci == cj {
				nd.Assert(nd.And(a.TopLeft.X == b.TopLeft.X, a.Width == b.Width), "cells of a column have the same left edge and width")
				if rj == ri+1 {
					nd.Assert(b.TopLeft.Y == a.TopLeft.Y+a.Height+float64(vgap), "neighbours in a column are separated by exactly the vertical gap, in declaration order")
				}
			}
		}
	}
}

// VerifC22Dynamic: a grid with only rows (or only columns) given fills its
// lines in declaration order; cells of a line share top and height (left and
// width), neighbours in a line are separated by exactly the gap, lines by
// exactly the other gap, nothing overlaps and every cell lies inside the grid.
// Cell sizes are drawn from a menu (the search for the best cut uses standard
// deviations, which are outside the solver's reach with symbolic sizes).
func VerifC22Dynamic() {
	lines := nd.Choose("lines", 1, nd.Param("L", 2))
	n := nd.Choose("cells", 1, nd.Param("N", 3))
	rowDir := nd.Bool("rows")
	hgap := []int{0, 7, 40}[nd.Choose("hgap", 0, nd.Param("GAPS", 3)-1)]
	vgap := []int{12, 0, 40}[nd.Choose("vgap", 0, nd.Param("GAPS", 3)-1)]
	var sb strings.Builder
	sb.WriteString("g: {\n")
	if rowDir {
		sb.WriteString(" grid-rows: " + strconv.Itoa(lines) + "\n")
	} else {
		sb.WriteString(" grid-columns: " + strconv.Itoa(lines) + "\n")
	}
	sb.WriteString(" horizontal-gap: " + strconv.Itoa(hgap) + "\n vertical-gap: " + strconv.Itoa(vgap) + "\n")
	for i := 0; i < n; i++ {
		sb.WriteString(" c" + strconv.Itoa(i) + "\n")
	}
	sb.WriteString("}\n")
	g, _, err := d2compiler.Compile("index.d2", strings.NewReader(sb.String()), nil)
	nd.Assert(err == nil, "the grid compiles")
	var grid *d2graph.Object
	for _, o := range g.Objects {
		if o.AbsID() == "g" {
			grid = o
		}
	}
	nd.Assert(grid != nil && len(grid.ChildrenArray) == n, "the grid has its cells")
	grid.Box = geo.NewBox(geo.NewPoint(0, 0), 0, 0)
	ws := []float64{40, 100, 170}
	hs := []float64{30, 90, 66}
	// the size along the direction of a line comes from the menu (it decides the cuts);
	// the size across it is symbolic (it only enters sums and maxima)
	for i, c := range grid.ChildrenArray {
		if nd.Param("SYM", 1) == 0 {
			c.Box = geo.NewBox(geo.NewPoint(0, 0), ws[nd.Choose("w"+strconv.Itoa(i), 0, 2)], hs[nd.Choose("h"+strconv.Itoa(i), 0, 2)])
		} else if rowDir {
			c.Box = geo.NewBox(geo.NewPoint(0, 0), ws[nd.Choose("w"+strconv.Itoa(i), 0, 2)], nd.Dyadic("h"+strconv.Itoa(i), 8, 2048, 1))
		} else {
			c.Box = geo.NewBox(geo.NewPoint(0, 0), nd.Dyadic("w"+strconv.Itoa(i), 8, 2048, 1), hs[nd.Choose("h"+strconv.Itoa(i), 0, 2)])
		}
	}
	gd, err := layoutGrid(g, grid)
	nd.Assert(err == nil && gd != nil, "layout succeeds")
	nd.Cover("laid-out")
	const eps = 1e-6
	near := func(a, b float64) bool { return a-b <= eps && b-a <= eps }
	cells := grid.ChildrenArray
	used := 1
	for i, a := range cells {
		if rowDir {
			nd.Assert(a.TopLeft.X >= -eps && a.TopLeft.X+a.Width <= gd.width+eps, "a cell lies outside the grid")
			nd.Assert(nd.And(a.TopLeft.Y >= 0, a.TopLeft.Y+a.Height <= gd.height), "a cell lies outside the grid")
		} else {
			nd.Assert(a.TopLeft.Y >= -eps && a.TopLeft.Y+a.Height <= gd.height+eps, "a cell lies outside the grid")
			nd.Assert(nd.And(a.TopLeft.X >= 0, a.TopLeft.X+a.Width <= gd.width), "a cell lies outside the grid")
		}
		for j := i + 1; j < len(cells); j++ {
			b := cells[j]
			if rowDir {
				nd.Assert(nd.Or(a.TopLeft.X+a.Width <= b.TopLeft.X+eps, b.TopLeft.X+b.Width <= a.TopLeft.X+eps, a.TopLeft.Y+a.Height <= b.TopLeft.Y, b.TopLeft.Y+b.Height <= a.TopLeft.Y), "two cells overlap")
			} else {
				nd.Assert(nd.Or(a.TopLeft.Y+a.Height <= b.TopLeft.Y+eps, b.TopLeft.Y+b.Height <= a.TopLeft.Y+eps, a.TopLeft.X+a.Width <= b.TopLeft.X, b.TopLeft.X+b.Width <= a.TopLeft.X), "two cells overlap")
			}
		}
		if i+1 == len(cells) {
			break
		}
		b := cells[i+1]
		if rowDir {
			// x and widths are concrete, y and heights symbolic and exact
			if b.TopLeft.X > eps {
				nd.Assert(nd.And(a.TopLeft.Y == b.TopLeft.Y, a.Height == b.Height), "cells of a row have the same top and height")
				nd.Assert(near(b.TopLeft.X, a.TopLeft.X+a.Width+float64(hgap)), "neighbours in a row are separated by exactly the horizontal gap, in declaration order")
			} else {
				used++
				nd.Assert(b.TopLeft.Y == a.TopLeft.Y+a.Height+float64(vgap), "the next row starts at the left, exactly the vertical gap below the previous row")
			}
		} else {
			if b.TopLeft.Y > eps {
				nd.Assert(nd.And(a.TopLeft.X == b.TopLeft.X, a.Width == b.Width), "cells of a column have the same left edge and width")
				nd.Assert(near(b.TopLeft.Y, a.TopLeft.Y+a.Height+float64(vgap)), "neighbours in a column are separated by exactly the vertical gap, in declaration order")
			} else {
				used++
				nd.Assert(b.TopLeft.X == a.TopLeft.X+a.Width+float64(hgap), "the next column starts at the top, exactly the horizontal gap right of the previous column")
			}
		}
	}
	want := lines
	if n < want {
		want = n
	}
	nd.Assert(used == want, "the cells are spread over the requested number of rows or columns")
}
