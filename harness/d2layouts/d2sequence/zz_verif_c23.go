package d2sequence

import (
	"strconv"
	"strings"

	"oss.terrastruct.com/d2/d2compiler"
	"oss.terrastruct.com/d2/d2graph"
	"oss.terrastruct.com/d2/lib/geo"
	nd "oss.terrastruct.com/d2/internal/verifnd"
)

// c23Top is the actor an endpoint belongs to (the endpoint itself or its ancestor below the diagram).
func c23Top(o *d2graph.Object) *d2graph.Object {
	for o.Parent != nil && o.Parent.Parent != nil {
		o = o.Parent
	}
	return o
}

// VerifC23Order: a sequence diagram with 1..A actors (optionally with a note
// and spans) and 0..M messages between actors and spans chosen symbolically:
// actors left to right in declaration order on a common baseline, messages top
// to bottom in declaration order, messages between different actors horizontal,
// every message starts and ends on the lifeline of its actor or on the border
// of its span, within the span's vertical extent. Actor sizes, note sizes and
// message label sizes are symbolic.
func VerifC23Order() {
	na := nd.Choose("actors", 1, nd.Param("A", 3))
	nm := nd.Choose("messages", 0, nd.Param("M", 2))
	names := []string{"a", "b", "c", "d"}[:na]
	var sb strings.Builder
	sb.WriteString("shape: sequence_diagram\n")
	for _, n := range names {
		sb.WriteString(n + "\n")
	}
	// endpoints: an actor or a span of it
	ends := []string{}
	for _, n := range names {
		ends = append(ends, n, n+".s")
	}
	note := nd.Param("NOTES", 1) > 0 && nd.Bool("note")
	notePos := 0
	if note {
		notePos = nd.Choose("notepos", 0, nm)
	}
	for i := 0; i <= nm; i++ {
		if note && i == notePos {
			sb.WriteString(names[0] + ".n: note\n")
		}
		if i == nm {
			break
		}
		src := ends[nd.Choose("src"+strconv.Itoa(i), 0, len(ends)-1)]
		dst := ends[nd.Choose("dst"+strconv.Itoa(i), 0, len(ends)-1)]
		sb.WriteString(src + " -> " + dst + ": m" + strconv.Itoa(i) + "\n")
	}
	text := sb.String()
	nd.Observe(text)
	g, _, err := d2compiler.Compile("index.d2", strings.NewReader(text), nil)
	if err != nil {
		nd.Cover("rejected")
		return
	}
	// sizes a text measurer would have set: symbolic
	for i, o := range g.Objects {
		o.LabelDimensions.Width, o.LabelDimensions.Height = 10, 10
		if o.Parent == g.Root {
			o.Box = geo.NewBox(nil, nd.Dyadic("aw"+strconv.Itoa(i), 100, 600, 1), nd.Dyadic("ah"+strconv.Itoa(i), 20, 400, 1))
		} else if o.ID == "n" {
			o.Box = geo.NewBox(nil, nd.Dyadic("nw", 20, 600, 1), nd.Dyadic("nh", 20, 300, 1))
		} else {
			o.Box = geo.NewBox(nil, 10, 10)
		}
	}
	for i, e := range g.Edges {
		e.LabelDimensions.Width = 2 * nd.IntRange("lw"+strconv.Itoa(i), 0, 300)
		e.LabelDimensions.Height = 2 * nd.IntRange("lh"+strconv.Itoa(i), 0, 60)
	}
	messages := append([]*d2graph.Edge{}, g.Edges...)
	sd, err := layoutSequenceDiagram(g, g.Root)
	if err != nil {
		nd.Cover("layout-error")
		return
	}
	nd.Cover("laid-out")
	_ = sd
	var actors []*d2graph.Object
	for _, n := range names {
		o, ok := g.Root.HasChild([]string{n})
		nd.Assert(ok, "the actor exists")
		actors = append(actors, o)
	}
	for i, a := range actors {
		nd.Assert(a.TopLeft.Y+a.Height == actors[0].TopLeft.Y+actors[0].Height, "actors stand on a common baseline")
		if i > 0 {
			p := actors[i-1]
			nd.Assert(p.TopLeft.X+p.Width <= a.TopLeft.X, "actors are placed left to right in declaration order without overlap")
		}
	}
	baseline := actors[0].TopLeft.Y + actors[0].Height
	prevEnd := baseline
	for i, m := range messages {
		nd.Assert(m.Label.Value == "m"+strconv.Itoa(i), "messages are kept in declaration order")
		r := m.Route
		nd.Assert(len(r) >= 2, "a message has a route")
		first, last := r[0], r[len(r)-1]
		nd.Assert(first.Y > prevEnd, "messages are placed top to bottom in declaration order, below the actors")
		nd.Assert(last.Y >= first.Y, "a message does not run upwards")
		prevEnd = last.Y
		if c23Top(m.Src) != c23Top(m.Dst) {
			nd.Assert(nd.And(len(r) == 2, first.Y == last.Y), "a message between different actors is a horizontal segment")
		}
		for k, end := range []*d2graph.Object{m.Src, m.Dst} {
			p := first
			if k == 1 {
				p = last
			}
			if end.Parent == g.Root {
				nd.Assert(p.X == end.TopLeft.X+end.Width/2, "a message end at an actor lies on the actor's lifeline")
			} else {
				nd.Assert(nd.Or(p.X == end.TopLeft.X, p.X == end.TopLeft.X+end.Width), "a message end at a span lies on the span's border")
				nd.Assert(nd.And(p.Y >= end.TopLeft.Y, p.Y <= end.TopLeft.Y+end.Height), "a message end at a span lies within the span's vertical extent")
				top := c23Top(end)
				nd.Assert(end.TopLeft.X+end.Width/2 == top.TopLeft.X+top.Width/2, "a span is centred on its actor's lifeline")
			}
		}
	}
}
