package d2near

import (
	"strings"

	"oss.terrastruct.com/d2/d2compiler"
	"oss.terrastruct.com/d2/d2graph"
	"oss.terrastruct.com/d2/lib/geo"
	"oss.terrastruct.com/d2/lib/label"
	nd "oss.terrastruct.com/d2/internal/verifnd"
)

var c24Nears = []string{"top-left", "top-center", "top-right", "center-left", "center-right", "bottom-left", "bottom-center", "bottom-right"}

var c24LabelPositions = []label.Position{label.InsideMiddleCenter, label.OutsideTopCenter, label.OutsideBottomCenter, label.OutsideLeftMiddle, label.OutsideRightMiddle,
	label.OutsideTopLeft, label.OutsideBottomRight, label.OutsideLeftTop, label.OutsideRightBottom, label.BorderTopCenter}

func c24Box(tag string, o *d2graph.Object, c int) {
	o.Box = geo.NewBox(geo.NewPoint(nd.Dyadic(tag+"x", -c, c, 1), nd.Dyadic(tag+"y", -c, c, 1)), nd.Dyadic(tag+"w", 1, c, 1), nd.Dyadic(tag+"h", 1, c, 1))
}

// VerifC24Place: a shape with a constant near is placed entirely outside the
// bounding box of the main diagram on the named side(s), with its outside
// label, and centred where the position says center.
func VerifC24Place() {
	c := nd.Param("COORD", 2048)
	near := c24Nears[nd.Choose("near", 0, len(c24Nears)-1)]
	g, _, err := d2compiler.Compile("index.d2", strings.NewReader("a\nb\n"), nil)
	nd.Assert(err == nil, "main graph compiles")
	gn, _, err := d2compiler.Compile("index.d2", strings.NewReader("n: {near: "+near+"}\n"), nil)
	nd.Assert(err == nil, "near object compiles")
	a, b, n := g.Objects[0], g.Objects[1], gn.Objects[0]
	c24Box("a", a, c)
	c24Box("b", b, c)
	n.Box = geo.NewBox(geo.NewPoint(0, 0), nd.Dyadic("nw", 1, c, 1), nd.Dyadic("nh", 1, c, 1))
	n.Graph = g
	lp := c24LabelPositions[nd.Choose("lp", 0, nd.Param("LPS", len(c24LabelPositions))-1)]
	lps := lp.String()
	n.LabelPosition = &lps
	n.LabelDimensions.Width = nd.IntRange("lw", 0, 512)
	n.LabelDimensions.Height = nd.IntRange("lh", 0, 512)
	x, y := place(n)
	nd.Cover("placed")
	// main bounding box (two unlabelled shapes), written out independently
	min := func(p, q float64) float64 {
		if p < q {
			return p
		}
		return q
	}
	max := func(p, q float64) float64 {
		if p > q {
			return p
		}
		return q
	}
	l, t := min(a.TopLeft.X, b.TopLeft.X), min(a.TopLeft.Y, b.TopLeft.Y)
	r, bt := max(a.TopLeft.X+a.Width, b.TopLeft.X+b.Width), max(a.TopLeft.Y+a.Height, b.TopLeft.Y+b.Height)
	// the placed shape, extended by its label where the label is drawn outside the shape on
	// the side that faces the diagram along the asserted axis (labels above or below count
	// for top/bottom, labels left or right for left/right; the overhang of a centred label
	// that is wider or higher than its shape is not part of the property)
	sl, stp, sr, sb := x, y, x+n.Width, y+n.Height
	if lp.IsOutside() {
		p := lp.GetPointOnBox(geo.NewBox(geo.NewPoint(x, y), n.Width, n.Height), label.PADDING, float64(n.LabelDimensions.Width), float64(n.LabelDimensions.Height))
		if strings.HasPrefix(lps, "OUTSIDE_TOP") || strings.HasPrefix(lps, "OUTSIDE_BOTTOM") {
			stp = min(stp, p.Y)
			sb = max(sb, p.Y+float64(n.LabelDimensions.Height))
		} else {
			sl = min(sl, p.X)
			sr = max(sr, p.X+float64(n.LabelDimensions.Width))
		}
	}
	if strings.HasPrefix(near, "top") {
		nd.Assert(sb <= t, "a top near shape (with its label) lies above the diagram")
	}
	if strings.HasPrefix(near, "bottom") {
		nd.Assert(stp >= bt, "a bottom near shape (with its label) lies below the diagram")
	}
	if strings.HasSuffix(near, "left") {
		nd.Assert(sr <= l, "a left near shape (with its label) lies left of the diagram")
	}
	if strings.HasSuffix(near, "right") {
		nd.Assert(sl >= r, "a right near shape (with its label) lies right of the diagram")
	}
	if near == "top-center" || near == "bottom-center" {
		d := (x + n.Width/2) - (l+r)/2
		nd.Assert(d <= 0.5 && d >= -0.5, "a *-center near shape is centred horizontally on the diagram")
	}
	if near == "center-left" || near == "center-right" {
		d := (y + n.Height/2) - (t+bt)/2
		nd.Assert(d <= 0.5 && d >= -0.5, "a center-* near shape is centred vertically on the diagram")
	}
}
