// Package verifnd is the harness-side nondeterminism API.
//
// Under gosx (the symbolic interpreter in /verif/engine) the primitive
// functions are intercepted: draws become SMT variables, Assume/Assert talk to
// the solver. Compiled natively, the same functions replay a recorded
// assignment (file named by $GOSX_REPLAY), so every counterexample and a
// sample of passing paths are re-executed against the real build.
//
// This file is never part of /repo: it is injected as
// /repo/internal/verifnd/nd.go by go/packages and `go test -overlay`.
package verifnd

import (
	"encoding/json"
	"fmt"
	"math"
	"os"
	"strconv"
	"strings"
)

type draw struct {
	Name string `json:"name"`
	Kind string `json:"kind"`
	V    uint64 `json:"v"`
}

type replayFile struct {
	Harness string         `json:"harness"`
	Msg     string         `json:"msg"`
	Values  []draw         `json:"values"`
	Params  map[string]int `json:"params"`
}

var (
	replay   replayFile
	pos      int
	loaded   bool
	Failures []string
	Covered  []string
	Observed []string
)

// AssumeFailed is the panic value used when a replayed assignment violates
// an assumption (the recorded model does not fit the native execution).
type AssumeFailed struct{ Where string }

func Load(path string) error {
	b, err := os.ReadFile(path)
	if err != nil {
		return err
	}
	replay = replayFile{}
	if err := json.Unmarshal(b, &replay); err != nil {
		return err
	}
	pos = 0
	loaded = true
	Failures = nil
	Covered = nil
	Observed = nil
	return nil
}

func Harness() string { return replay.Harness }

// Param returns a tier parameter of the check (a stated bound).
func Param(name string, def int) int {
	if !loaded {
		next0()
	}
	if v, ok := replay.Params[name]; ok {
		return v
	}
	return def
}

// Known reports whether the known finding id is listed as open in
// /verif/known_findings.json and its witness still reproduces; harnesses use it
// to assume exactly that finding's input class away.
func Known(id string) bool { return Param("known:"+id, 0) == 1 }

func next0() {
	p := os.Getenv("GOSX_REPLAY")
	if p == "" {
		panic("verifnd: no replay file (GOSX_REPLAY unset)")
	}
	if err := Load(p); err != nil {
		panic(err)
	}
}

func next(name, kind string) uint64 {
	if !loaded {
		next0()
	}
	if pos >= len(replay.Values) {
		// draws beyond the recorded ones are unconstrained in the model
		pos++
		return 0
	}
	d := replay.Values[pos]
	pos++
	if d.Name != name || !strings.HasPrefix(d.Kind, kind) {
		panic(fmt.Sprintf("verifnd: replay mismatch at draw %d: recorded %s/%s, requested %s/%s", pos-1, d.Name, d.Kind, name, kind))
	}
	return d.V
}

func Byte(name string) byte       { return byte(next(name, "uint8")) }
func Bool(name string) bool       { return next(name, "bool") != 0 }
func Int(name string) int         { return int(next(name, "int")) }
func Int32(name string) int32     { return int32(next(name, "int32")) }
func Float64(name string) float64 { return math.Float64frombits(next(name, "float64")) }

// IntRange draws an int assumed to lie in [lo,hi]; it stays symbolic.
func IntRange(name string, lo, hi int) int {
	v := int(next(name, "int"))
	if pos > len(replay.Values) {
		v = lo
	}
	if v < lo || v > hi {
		panic(AssumeFailed{"IntRange " + name})
	}
	return v
}

// Choose draws an int in [lo,hi]; the engine explores one path per value.
func Choose(name string, lo, hi int) int { return IntRange(name, lo, hi) }

// Dyadic draws a float64 that is a multiple of 2^-k in [lo,hi].
func Dyadic(name string, lo, hi, k int) float64 {
	raw := int64(next(name, "dyadic"))
	if pos > len(replay.Values) {
		raw = int64(lo) << uint(k)
	}
	v := math.Ldexp(float64(raw), -k)
	if v < float64(lo) || v > float64(hi) {
		panic(AssumeFailed{"Dyadic " + name})
	}
	return v
}

func Assume(c bool) {
	if !c {
		panic(AssumeFailed{"Assume"})
	}
}

func Assert(c bool, msg string) {
	if !c {
		Failures = append(Failures, msg)
		panic(AssertFailed{msg})
	}
}

type AssertFailed struct{ Msg string }

func Fail(msg string) { Assert(false, msg) }

func Cover(label string) { Covered = append(Covered, label) }

// Concrete forces the engine to fork over the values of x.
func Concrete(x int) int { return x }

// ConcreteString forces the engine to fork over the values of s.
func ConcreteString(s string) string { return s }

// MapOrderSymbolic makes the iteration order of Go maps a symbolic choice.
func MapOrderSymbolic(on bool) {
	if on {
		// natively the runtime randomises map order already; draws named
		// "maporder" recorded by the engine are skipped here.
	}
}

// Or and And combine conditions without short-circuit evaluation, so that the
// engine builds one disjunction/conjunction term instead of forking per operand.
func Or(cs ...bool) bool {
	r := false
	for _, c := range cs {
		r = r || c
	}
	return r
}

func And(cs ...bool) bool {
	r := true
	for _, c := range cs {
		r = r && c
	}
	return r
}

// Quiesce (scheduler harnesses) returns when no other goroutine can make
// progress any more: all of them are blocked or have ended. Natively it only
// yields, there is no way to observe quiescence.
func Quiesce() {}

// Yield (scheduler harnesses) marks a long-running step of the environment:
// any other goroutine may run here, without using up the preemption budget.
func Yield() {}

// Symbolic reports whether the code runs under the symbolic engine.
func Symbolic() bool { return false }

// IsSymbolic reports whether v has symbolic parts (engine only).
func IsSymbolic(v any) bool { return false }

// Observe records a digest of an observable result for translation validation.
func Observe(v any) {
	if len(Observed) >= 64 {
		return
	}
	switch x := v.(type) {
	case string:
		Observed = append(Observed, strconv.Quote(x))
	case float64:
		if x != x {
			Observed = append(Observed, "NaN")
		} else {
			Observed = append(Observed, fmt.Sprintf("%v", x))
		}
	case bool, int, int8, int16, int32, int64, uint, uint8, uint16, uint32, uint64:
		Observed = append(Observed, fmt.Sprintf("%v", x))
	default:
		Observed = append(Observed, fmt.Sprintf("<%T>", v))
	}
}

// ---- composite helpers (plain Go, interpreted by the engine as written)

// Bytes draws n arbitrary bytes.
func Bytes(name string, n int) []byte {
	b := make([]byte, n)
	for i := range b {
		b[i] = Byte(name + strconv.Itoa(i))
	}
	return b
}

// String draws a string of n arbitrary bytes.
func String(name string, n int) string { return string(Bytes(name, n)) }

// ASCII draws a string of n bytes each < 0x80.
func ASCII(name string, n int) string {
	b := Bytes(name, n)
	for _, c := range b {
		Assume(c < 0x80)
	}
	return string(b)
}

// Printable draws a string of n bytes each in [0x20,0x7e] or '\n'.
func Printable(name string, n int) string {
	b := Bytes(name, n)
	for _, c := range b {
		Assume(c == '\n' || (c >= 0x20 && c <= 0x7e))
	}
	return string(b)
}

// From draws a string of n bytes each taken from alphabet.
func From(name string, n int, alphabet string) string {
	b := make([]byte, n)
	for i := range b {
		c := Byte(name + strconv.Itoa(i))
		if pos > len(replay.Values) {
			c = alphabet[0]
		}
		if strings.IndexByte(alphabet, c) < 0 {
			panic(AssumeFailed{"From " + name})
		}
		b[i] = c
	}
	return string(b)
}

// Letters draws n ASCII letters with symbolic case.
func Letters(name string, n int) string {
	b := Bytes(name, n)
	for _, c := range b {
		Assume((c >= 'a' && c <= 'z') || (c >= 'A' && c <= 'Z'))
	}
	return string(b)
}

// CaseMask returns word with each ASCII letter's case chosen symbolically.
func CaseMask(name string, word string) string {
	b := []byte(word)
	for i, c := range b {
		if c >= 'a' && c <= 'z' {
			if Bool(name + strconv.Itoa(i)) {
				b[i] = c - 32
			}
		}
	}
	return string(b)
}

// Rune draws an arbitrary rune value a RuneReader may deliver: any code
// point in [0,0x10FFFF] (surrogates included).
func Rune(name string) rune {
	r := Int32(name)
	Assume(r >= 0 && r <= 0x10FFFF)
	return r
}

// CaptureFormats(true) makes the engine return a placeholder from fmt.Sprintf
// and keep the operands, so that formatted numbers can be examined exactly.
// Natively it does nothing: FloatsOf then parses the real text.
func CaptureFormats(on bool) {}

// FloatsOf returns the float operands (verbs %f/%v of float64) that went into
// the formatted string s: exactly under the engine, re-parsed from the text
// (every maximal token of the form [-]digits.digits) natively.
func FloatsOf(s string) []float64 {
	var out []float64
	i := 0
	for i < len(s) {
		j := i
		if s[j] == '-' {
			j++
		}
		k := j
		for k < len(s) && s[k] >= '0' && s[k] <= '9' {
			k++
		}
		if k > j && k < len(s) && s[k] == '.' {
			m := k + 1
			for m < len(s) && s[m] >= '0' && s[m] <= '9' {
				m++
			}
			if m > k+1 {
				f, err := strconv.ParseFloat(s[i:m], 64)
				if err == nil {
					out = append(out, f)
				}
				i = m
				continue
			}
		}
		if k > i {
			i = k
		} else {
			i++
		}
	}
	return out
}
