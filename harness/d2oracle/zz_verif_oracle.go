package d2oracle

import (
	"strconv"
	"strings"

	"oss.terrastruct.com/d2/d2ast"
	"oss.terrastruct.com/d2/d2compiler"
	"oss.terrastruct.com/d2/d2format"
	"oss.terrastruct.com/d2/d2graph"
	"oss.terrastruct.com/d2/d2parser"
	nd "oss.terrastruct.com/d2/internal/verifnd"
)

// Base diagrams for the editing harnesses. Every object and connection has
// a unique label so that elements can be followed through an edit by label.
var oBases = []string{
	"a: LA\nb: LB\na -> b: LE\n",
	"a: LA {\n  b: LB\n  c: LC\n  b -> c: LE\n}\nd: LD\na.b -> d: LF\n",
	"a: LA\nb: LB\na -> b: LE\na -> b: LF\nb -> a: LG\n",
	"a.b.c: LC\na.b: LB\na: LA\nd: LD {\n  b: LX\n}\na.b.c -> d.b: LE\n",
	// endpoints that exist only through a connection; an indexed reference to it
	"a -> b: LE\n(a -> b)[0].style.stroke: red\nd: LD\nd -> a: LF\n",
	// a chain, and a connection declared inside a container with an outside reference
	"a -> b -> d: LE\n(b -> d)[0]: LG\nz: LZ {\n  m -> n: LF\n}\nz.(m -> n)[0].style.opacity: 0.4\n",
}

// oCollisionBase draws a container a with two children and two objects
// outside it, all named from a small menu of auto-generated-looking names, so
// that hoisting children out of a deleted or moved container meets name
// collisions in every combination.
// oDeepCollision: the last collision base nests container a inside p and one of
// the names of a's children is taken in p.
var oDeepCollision bool

func oCollisionBase() string {
	oDeepCollision = false
	names := []string{"x", "x 2", "y", "x 3"}
	pick := func(tag string) string { return names[nd.Choose(tag, 0, nd.Param("CN", len(names))-1)] }
	c1, c2, o1, o2 := pick("c1"), pick("c2"), pick("o1"), pick("o2")
	nd.Assume(c1 != c2 && o1 != o2)
	// the children are declared on their own, or exist only as the endpoints of a connection
	children := "  " + c1 + ": L1\n  " + c2 + ": L2\n"
	if nd.Bool("viaedge") {
		children = "  " + c1 + " -> " + c2 + ": L5\n"
	}
	inner := "a: LA {\n" + children + "}\n" + o1 + ": L3\n" + o2 + ": L4\n"
	if nd.Bool("deep") {
		oDeepCollision = c1 == o1 || c1 == o2 || c2 == o1 || c2 == o2
		// the same one level down: container p.a next to p's own children
		return "p: LP {\n  " + strings.ReplaceAll(strings.TrimSuffix(inner, "\n"), "\n", "\n  ") + "\n}\n"
	}
	return inner
}

func oCompile(text string) *d2graph.Graph {
	g, _, err := d2compiler.Compile("index.d2", strings.NewReader(text), nil)
	if err != nil {
		return nil
	}
	return g
}

func oBase() (*d2graph.Graph, string) {
	oDeepCollision = false
	nb := nd.Param("BASES", len(oBases))
	bi := nd.Choose("base", 0, nb-1+nd.Param("COLL", 0))
	var t string
	oCollisionActive = bi >= nb
	if bi >= nb {
		t = oCollisionBase()
	} else {
		t = oBases[bi]
	}
	g := oCompile(t)
	nd.Assert(g != nil, "the base diagram compiles")
	return g, t
}

var oObjKeys = []string{"a", "b", "a.b", "a.c", "d", "z", "A", "a.z", "a.b.c", "d.b", "z.y", "B", "p.a", "p"}
var oEdgeKeys = []string{"(a -> b)[0]", "(a -> b)[1]", "(b -> a)[0]", "a.(b -> c)[0]", "(a.b -> d)[0]", "(a.b.c -> d.b)[0]", "(a -> z)[0]", "(A -> b)[0]", "(b -> d)[0]", "z.(m -> n)[0]", "(d -> a)[0]"}

var oEdgeCreateKeys = []string{"a -> b", "b -> a", "a.b -> a.c", "a -> z", "A -> b", "a.b -> d", "a <- b", "a -- d.b"}

func oCreateKey(tag string) string {
	if nd.Bool(tag + "edge") {
		return oEdgeCreateKeys[nd.Choose(tag+"ek", 0, len(oEdgeCreateKeys)-1)]
	}
	return oObjKeys[nd.Choose(tag+"ok", 0, len(oObjKeys)-1)]
}

// oMoveArgs draws the arguments of a Move: the object key, the new key
// (not inside the moved object itself - moving an object into its own subtree
// is outside the operation's domain) and includeDescendants. follows reports
// whether the descendants are expected to follow the object: when requested,
// or when the object stays in the same container (a plain rename).
func oMoveArgs() (key, to string, incl, follows bool) {
	key, to, incl = oKey("k", false), oKey("to", false), nd.Bool("desc")
	lk, lt := strings.ToLower(key), strings.ToLower(to)
	nd.Assume(lk != lt && !strings.HasPrefix(lt, lk+"."))
	parent := func(k string) string {
		if i := strings.LastIndex(k, "."); i >= 0 {
			return k[:i]
		}
		return ""
	}
	return key, to, incl, incl || parent(lk) == parent(lt)
}

func oRenameArgs() (key, nn string) {
	key = oKey("k", false)
	nn = []string{"z", "b", "a", "B", "x y", "c"}[nd.Choose("nn", 0, 5)]
	return key, nn
}

// oCollisionActive: the current base is of the collision family; keys are then
// drawn from the few keys that exist in it (the container, its parent, a child).
var oCollisionActive bool

var oCollisionKeys = []string{"a", "p.a", "p", "x", "a.x", "p.x", "z"}

func oKey(tag string, edges bool) string {
	if oCollisionActive {
		return oCollisionKeys[nd.Choose(tag+"ck", 0, len(oCollisionKeys)-1)]
	}
	if edges && nd.Bool(tag+"edge") {
		return oEdgeKeys[nd.Choose(tag+"ek", 0, len(oEdgeKeys)-1)]
	}
	return oObjKeys[nd.Choose(tag+"ok", 0, len(oObjKeys)-1)]
}

// oStable asserts C36 for a graph returned by an edit: its source text
// compiles to the same diagram and the formatter leaves it unchanged.
func oStable(g2 *d2graph.Graph) {
	text := d2format.Format(g2.AST)
	g3 := oCompile(text)
	nd.Assert(g3 != nil, "the source text after an edit compiles")
	nd.Assert(d2compiler.VProj(g3) == d2compiler.VProj(g2), "the source text after an edit compiles to the returned diagram")
	ast, err := d2parser.Parse("index.d2", strings.NewReader(text), nil)
	nd.Assert(err == nil, "the source text after an edit parses")
	nd.Assert(d2format.Format(ast) == text, "the formatter leaves the source text after an edit unchanged")
}

// oEdit applies one symbolic edit and returns the new graph (nil if refused).
func oEdit(g *d2graph.Graph) (g2 *d2graph.Graph, op int, key, arg string) {
	op = nd.Choose("op", 0, 5)
	var err error
	switch op {
	case 0:
		key = oCreateKey("k")
		g2, arg, err = Create(g, nil, key)
	case 1:
		key = oKey("k", true)
		v := nd.From("val", nd.Choose("vlen", 0, nd.Param("NV", 2)), "xX1 .'\"$#\n-")
		arg = v
		attr := []string{"", ".label", ".style.opacity", ".shape", ".tooltip"}[nd.Choose("attr", 0, 1)]
		g2, err = Set(g, nil, key+attr, nil, &v)
	case 2:
		key = oKey("k", true)
		g2, err = Delete(g, nil, key)
	case 3:
		key, arg = oRenameArgs()
		g2, _, err = Rename(g, nil, key, arg)
	case 4:
		var incl bool
		key, arg, incl, _ = oMoveArgs()
		g2, err = Move(g, nil, key, arg, incl)
	case 5:
		key = oEdgeKeys[nd.Choose("kek", 0, len(oEdgeKeys)-1)]
		s, d := oKey("src", false), oKey("dst", false)
		var sp, dp *string
		if nd.Bool("hasSrc") {
			sp = &s
		}
		if nd.Bool("hasDst") {
			dp = &d
		}
		arg = s + ">" + d
		g2, err = ReconnectEdge(g, nil, key, sp, dp)
	}
	if err != nil {
		nd.Cover("refused")
		return nil, op, key, arg
	}
	nd.Cover("edited")
	return g2, op, key, arg
}

// VerifC36Stable: every successful edit yields compilable, formatter-stable source.
func VerifC36Stable() {
	g, _ := oBase()
	g2, _, _, _ := oEdit(g)
	if g2 == nil {
		return
	}
	oStable(g2)
	if nd.Param("HIST", 1) >= 2 {
		g3, _, _, _ := oEdit2(g2)
		if g3 != nil {
			oStable(g3)
		}
	}
}

func oEdit2(g *d2graph.Graph) (*d2graph.Graph, int, string, string) { return oEdit(g) }

var _ = d2graph.NewGraph

// ---- helpers for the semantic checks (C37..C40): elements are followed
// through an edit by their unique labels.

func oObjByLabel(g *d2graph.Graph, label string) *d2graph.Object {
	for _, o := range g.Objects {
		if o.Label.Value == label {
			return o
		}
	}
	return nil
}

func oEdgeByLabel(g *d2graph.Graph, label string) *d2graph.Edge {
	for _, e := range g.Edges {
		if e.Label.Value == label {
			return e
		}
	}
	return nil
}

func oObjByID(g *d2graph.Graph, id string) *d2graph.Object {
	for _, o := range g.Objects {
		if strings.EqualFold(o.AbsID(), id) {
			return o
		}
	}
	return nil
}

func oEdgeByID(g *d2graph.Graph, id string) *d2graph.Edge {
	for _, e := range g.Edges {
		if strings.EqualFold(e.AbsID(), id) {
			return e
		}
	}
	return nil
}

func oIsDesc(o, anc *d2graph.Object) bool {
	for p := o.Parent; p != nil; p = p.Parent {
		if p == anc {
			return true
		}
	}
	return false
}

func oParentLabel(o *d2graph.Object) string {
	if o.Parent == nil || o.Parent.Parent == nil {
		return "<root>"
	}
	return o.Parent.Label.Value
}

func oLine(o *d2graph.Object) string {
	par := "<root>"
	if o.Parent != nil && o.Parent.Parent != nil {
		par = o.Parent.AbsID()
	}
	return o.AbsID() + " label=" + o.Label.Value + " shape=" + o.Shape.Value + " parent=" + par
}

func oELine(e *d2graph.Edge) string {
	return e.AbsID() + " label=" + e.Label.Value + " src=" + e.Src.AbsID() + " dst=" + e.Dst.AbsID()
}

// oOthersUnchanged asserts that every element of g except the listed labels
// is present in g2 with the same ID, label, shape, parent and endpoints.
func oOthersUnchanged(g, g2 *d2graph.Graph, except map[string]bool, what string) {
	for _, o := range g.Objects {
		if except[o.Label.Value] {
			continue
		}
		o2 := oObjByLabel(g2, o.Label.Value)
		nd.Assert(o2 != nil, what+": an unrelated object disappeared")
		nd.Assert(oLine(o2) == oLine(o), what+": an unrelated object changed")
	}
	for _, e := range g.Edges {
		if except[e.Label.Value] {
			continue
		}
		e2 := oEdgeByLabel(g2, e.Label.Value)
		nd.Assert(e2 != nil, what+": an unrelated connection disappeared")
		nd.Assert(oELine(e2) == oELine(e), what+": an unrelated connection changed")
	}
}

// VerifC37CreateSet: Create adds exactly the returned key (plus missing
// containers); Set makes the attribute equal to the value; nothing else changes.
func VerifC37CreateSet() {
	g, _ := oBase()
	if nd.Bool("set") {
		key := oKey("k", true)
		v := nd.From("val", nd.Choose("vlen", 1, nd.Param("NV", 2)), "xX1 .'\"$#-")
		isEdge := strings.Contains(key, " -") || strings.Contains(key, "<-")
		var before string
		if isEdge {
			if e := oEdgeByID(g, key); e != nil {
				before = e.Label.Value
			}
		} else if o := oObjByID(g, key); o != nil {
			before = o.Label.Value
		}
		// elements are followed through the edit by their labels: the new value is a label no element has yet
		for _, o := range g.Objects {
			nd.Assume(o.Label.Value != v)
		}
		for _, e := range g.Edges {
			nd.Assume(e.Label.Value != v)
		}
		g2, err := Set(g, nil, key, nil, &v)
		if err != nil {
			nd.Cover("refused")
			return
		}
		nd.Cover("set")
		if isEdge {
			e2 := oEdgeByID(g2, key)
			nd.Assert(e2 != nil, "Set: the connection exists afterwards")
			nd.Assert(e2.Label.Value == v, "Set: the connection's label equals the given value exactly")
		} else {
			o2 := oObjByID(g2, key)
			nd.Assert(o2 != nil, "Set: the object exists afterwards")
			nd.Assert(o2.Label.Value == v, "Set: the object's label equals the given value exactly")
		}
		oOthersUnchanged(g, g2, map[string]bool{before: true}, "Set")
		return
	}
	key := oCreateKey("k")
	g2, newKey, err := Create(g, nil, key)
	if err != nil {
		nd.Cover("refused")
		return
	}
	nd.Cover("created")
	oOthersUnchanged(g, g2, nil, "Create")
	if strings.Contains(key, " -") || strings.Contains(key, "<-") {
		nd.Assert(len(g2.Edges) == len(g.Edges)+1, "Create: exactly one connection is added")
		nd.Assert(oEdgeByID(g, newKey) == nil, "Create: the returned connection ID did not exist before")
		nd.Assert(oEdgeByID(g2, newKey) != nil, "Create: the returned connection ID exists afterwards")
		return
	}
	nd.Assert(oObjByID(g, newKey) == nil, "Create: the returned key did not exist before")
	n2 := oObjByID(g2, newKey)
	nd.Assert(n2 != nil, "Create: the returned key exists afterwards")
	nd.Assert(len(g2.Edges) == len(g.Edges), "Create: no connection is added by creating an object")
	for _, o2 := range g2.Objects {
		if oObjByID(g, o2.AbsID()) == nil {
			nd.Assert(o2 == n2 || oIsDesc(n2, o2), "Create: only the new object and missing containers on its path are added")
		}
	}
}

// VerifC38Delete: Delete removes exactly the target, keeps its children by
// moving them to its parent, and leaves everything else unchanged.
func VerifC38Delete() {
	g, _ := oBase()
	key := oKey("k", true)
	isEdge := strings.Contains(key, " -") || strings.Contains(key, "<-")
	g2, err := Delete(g, nil, key)
	if err != nil {
		nd.Cover("refused")
		return
	}
	if isEdge {
		e := oEdgeByID(g, key)
		if e == nil {
			nd.Cover("noop")
			nd.Assert(len(g2.Edges) == len(g.Edges) && len(g2.Objects) == len(g.Objects), "Delete of a missing connection changes nothing")
			return
		}
		nd.Cover("edge")
		nd.Assert(len(g2.Edges) == len(g.Edges)-1, "Delete: exactly one connection is removed")
		nd.Assert(oEdgeByLabel(g2, e.Label.Value) == nil, "Delete: the target connection is gone")
		nd.Assert(len(g2.Objects) == len(g.Objects), "Delete of a connection keeps all objects")
		for _, x := range g.Edges {
			if x == e {
				continue
			}
			x2 := oEdgeByLabel(g2, x.Label.Value)
			nd.Assert(x2 != nil && x2.Src.Label.Value == x.Src.Label.Value && x2.Dst.Label.Value == x.Dst.Label.Value, "Delete: other connections keep their endpoints")
			want := x.Index
			if x.Src == e.Src && x.Dst == e.Dst && x.SrcArrow == e.SrcArrow && x.DstArrow == e.DstArrow && x.Index > e.Index {
				want--
			}
			nd.Assert(x2.Index == want, "Delete: later parallel connections are renumbered, others keep their index")
		}
		return
	}
	t := oObjByID(g, key)
	if t == nil {
		nd.Cover("noop")
		nd.Assert(len(g2.Edges) == len(g.Edges) && len(g2.Objects) == len(g.Objects), "Delete of a missing object changes nothing")
		return
	}
	nd.Cover("object")
	nd.Assert(oObjByLabel(g2, t.Label.Value) == nil, "Delete: the target object is gone")
	nd.Assert(len(g2.Objects) == len(g.Objects)-1, "Delete: exactly one object is removed")
	except := map[string]bool{t.Label.Value: true}
	attached := 0
	for _, e := range g.Edges {
		if e.Src == t || e.Dst == t {
			attached++
			except[e.Label.Value] = true
			nd.Assert(oEdgeByLabel(g2, e.Label.Value) == nil, "Delete: connections attached to the target are removed")
		} else if oIsDesc(e.Src, t) || oIsDesc(e.Dst, t) {
			except[e.Label.Value] = true
			e2 := oEdgeByLabel(g2, e.Label.Value)
			nd.Assert(e2 != nil, "Delete: connections of the children are kept")
			// endpoints are followed by label; an implicit label (equal to the ID) changes when a hoisted child is renamed
			if e.Src.Label.Value != e.Src.ID {
				nd.Assert(e2.Src.Label.Value == e.Src.Label.Value, "Delete: connections of the children stay attached to the same source")
			}
			if e.Dst.Label.Value != e.Dst.ID {
				nd.Assert(e2.Dst.Label.Value == e.Dst.Label.Value, "Delete: connections of the children stay attached to the same destination")
			}
		}
	}
	nd.Assert(len(g2.Edges) == len(g.Edges)-attached, "Delete: only attached connections are removed")
	for _, o := range g.Objects {
		if oIsDesc(o, t) {
			except[o.Label.Value] = true
			if o.Label.Value == o.ID {
				continue // an implicit label changes when the hoisted child is renamed: not followed
			}
			o2 := oObjByLabel(g2, o.Label.Value)
			nd.Assert(o2 != nil, "Delete: descendants of the target are kept")
			if o.Parent == t {
				nd.Assert(oParentLabel(o2) == oParentLabel(t), "Delete: children move to the target's parent")
			} else {
				nd.Assert(oParentLabel(o2) == oParentLabel(o), "Delete: deeper descendants keep their parent")
			}
		}
	}
	oOthersUnchanged(g, g2, except, "Delete")
}

// VerifC39Move: Rename and Move keep every object and connection with labels
// and endpoints; only the moved object (and its descendants when requested)
// change ID; descendants that are not moved stay in the former parent.
func VerifC39Move() {
	g, _ := oBase()
	var key string
	var g2 *d2graph.Graph
	var err error
	incl := true
	if nd.Bool("rename") {
		var nn string
		key, nn = oRenameArgs()
		g2, _, err = Rename(g, nil, key, nn)
	} else {
		var to string
		var requested bool
		key, to, requested, incl = oMoveArgs()
		g2, err = Move(g, nil, key, to, requested)
	}
	t := oObjByID(g, key)
	if err != nil || t == nil {
		nd.Cover("refused")
		return
	}
	nd.Cover("moved")
	except := map[string]bool{t.Label.Value: true}
	for _, o := range g.Objects {
		if o.Label.Value == o.ID {
			// an implicit label is the object's name and changes with it: not followed by label
			except[o.Label.Value] = true
			continue
		}
		o2 := oObjByLabel(g2, o.Label.Value)
		nd.Assert(o2 != nil, "Move/Rename: every object is kept with its label")
		nd.Assert(o2.Shape.Value == o.Shape.Value, "Move/Rename: attributes are kept")
		if oIsDesc(o, t) {
			except[o.Label.Value] = true
			if !incl && o.Parent == t {
				nd.Assert(oParentLabel(o2) == oParentLabel(t), "Move without descendants: children stay in the moved object's former parent")
			}
			if incl && o.Parent == t {
				nd.Assert(oParentLabel(o2) == t.Label.Value, "Move with descendants: children stay inside the moved object")
			}
		}
	}
	for _, e := range g.Edges {
		except[e.Label.Value] = true
		e2 := oEdgeByLabel(g2, e.Label.Value)
		nd.Assert(e2 != nil, "Move/Rename: every connection is kept with its label")
		if e.Src.Label.Value != e.Src.ID {
			nd.Assert(e2.Src.Label.Value == e.Src.Label.Value, "Move/Rename: connections stay attached to the same source")
		}
		if e.Dst.Label.Value != e.Dst.ID {
			nd.Assert(e2.Dst.Label.Value == e.Dst.Label.Value, "Move/Rename: connections stay attached to the same destination")
		}
	}
	nd.Assert(len(g2.Edges) == len(g.Edges), "Move/Rename: no connection is added or dropped")
	oOthersUnchanged(g, g2, except, "Move/Rename")
	for _, o2 := range g2.Objects {
		if oObjByLabel(g, o2.Label.Value) == nil && !oCollisionActive {
			// a container created on the destination path: it must enclose the moved object
			m2 := oObjByLabel(g2, t.Label.Value)
			nd.Assert(oIsDesc(m2, o2), "Move: only missing containers on the destination path are created")
		}
	}
}

// VerifC40Deltas: the predicted ID changes agree with the edit itself.
func VerifC40Deltas() {
	g, _ := oBase()
	c40MoveHoists := false
	isContainerA := func(k string) bool { k = strings.ToLower(k); return k == "a" || k == "p.a" }
	var deltas map[string]string
	var g2 *d2graph.Graph
	var derr, err error
	switch nd.Choose("op", 0, 3) {
	case 0:
		key := oKey("k", true)
		deltas, derr = DeleteIDDeltas(g, nil, key)
		g2, err = Delete(g, nil, key)
	case 1:
		key, nn := oRenameArgs()
		deltas, derr = RenameIDDeltas(g, nil, key, nn)
		g2, _, err = Rename(g, nil, key, nn)
	case 2:
		key, to, incl, follows := oMoveArgs()
		c40MoveHoists = isContainerA(key) && !follows
		deltas, derr = MoveIDDeltas(g, key, to, incl)
		g2, err = Move(g, nil, key, to, incl)
	case 3:
		nd.Assume(!oCollisionActive) // the collision family has at most one connection: reconnects are explored on the other bases
		key := oEdgeKeys[nd.Choose("kek", 0, len(oEdgeKeys)-1)]
		s, d := oKey("src", false), oKey("dst", false)
		var sp, dp *string
		if nd.Bool("hasSrc") {
			sp = &s
		}
		if nd.Bool("hasDst") {
			dp = &d
		}
		deltas, derr = ReconnectEdgeIDDeltas(g, nil, key, sp, dp)
		g2, err = ReconnectEdge(g, nil, key, sp, dp)
	}
	if err != nil || derr != nil {
		nd.Cover("refused")
		return
	}
	if oDeepCollision && c40MoveHoists && nd.Known("C40-move-nested-container-conflict-names") {
		// recorded finding: moving a nested container out of its parent without its
		// descendants hoists the children into the parent; when their names are taken there,
		// MoveIDDeltas and Move pick different replacement names
		return
	}
	nd.Cover("predicted")
	used := map[string]bool{}
	for _, o := range g.Objects {
		if o.Label.Value == o.ID {
			// an implicit label changes with the ID: such an object cannot be followed by label
			// (its connections, which carry explicit labels, are)
			if _, predicted := deltas[o.AbsID()]; predicted {
				used[o.AbsID()] = true
			}
			continue
		}
		o2 := oObjByLabel(g2, o.Label.Value)
		if o2 == nil {
			_, predicted := deltas[o.AbsID()]
			nd.Assert(!predicted, "no ID change is predicted for an object the edit removes")
			continue
		}
		want, ok := deltas[o.AbsID()]
		if !ok {
			want = o.AbsID()
		} else {
			used[o.AbsID()] = true
		}
		nd.Assert(o2.AbsID() == want, "every surviving object ends up with the predicted ID, or keeps its ID when no change is predicted")
	}
	for _, e := range g.Edges {
		e2 := oEdgeByLabel(g2, e.Label.Value)
		if e2 == nil {
			_, predicted := deltas[e.AbsID()]
			nd.Assert(!predicted, "no ID change is predicted for a connection the edit removes")
			continue
		}
		want, ok := deltas[e.AbsID()]
		if !ok {
			want = e.AbsID()
		} else {
			used[e.AbsID()] = true
		}
		nd.Assert(e2.AbsID() == want, "every surviving connection ends up with the predicted ID, or keeps its ID when no change is predicted")
	}
	for k := range deltas {
		nd.Assert(used[k], "every predicted change names an element that exists and survives")
	}
}

// ---- C41: edits addressed to a board stay within that board

const oBoardsText = "a: LA\nb: LB\na -> b: LE\nlayers: {\n  l: {\n    c: LC\n    d: LD\n    c -> d: LF\n  }\n  k: {\n    e: LK\n  }\n}\nscenarios: {\n  s: {\n    f: LG\n    a -> f: LH\n    b.style.opacity: 0.4\n    (a -> b)[0].style.opacity: 0.4\n  }\n}\n"

func oBoardBodies(g *d2graph.Graph) map[string]string {
	out := map[string]string{"root": d2compiler.VBody(g, false)}
	for _, b := range g.Layers {
		out["layers."+b.Name] = d2compiler.VBody(b, false)
	}
	for _, b := range g.Scenarios {
		out["scenarios."+b.Name] = d2compiler.VBody(b, false)
	}
	return out
}

// VerifC41Boards: an edit addressed to a nested board changes only that board
// (and boards inheriting from it); the base board and unrelated boards
// compile to the same content as before, whether the edit succeeds or not.
func VerifC41Boards() {
	g := oCompile(oBoardsText)
	nd.Assert(g != nil, "the board template compiles")
	before := oBoardBodies(g)
	paths := [][]string{{"l"}, {"k"}, {"s"}}
	selves := []string{"layers.l", "layers.k", "scenarios.s"}
	bi := nd.Choose("board", 0, len(paths)-1)
	bp := paths[bi]
	self := selves[bi]
	keys := []string{"c", "d", "e", "f", "a", "b", "z", "c.x", "(c -> d)[0]", "(a -> f)[0]", "(a -> b)[0]", "C"}
	key := keys[nd.Choose("key", 0, len(keys)-1)]
	var g2 *d2graph.Graph
	var err error
	switch nd.Choose("op", 0, 4) {
	case 0:
		ck := key
		if strings.Contains(ck, "(") {
			ck = []string{"c -> d", "a -> f", "e -> z"}[nd.Choose("ck", 0, 2)]
		}
		g2, _, err = Create(g, bp, ck)
	case 1:
		v := nd.From("val", 1, "xX1 ")
		g2, err = Set(g, bp, key, nil, &v)
	case 2:
		g2, err = Delete(g, bp, key)
	case 3:
		nd.Assume(!strings.Contains(key, "("))
		g2, _, err = Rename(g, bp, key, []string{"z", "d", "a"}[nd.Choose("nn", 0, 2)])
	case 4:
		nd.Assume(!strings.Contains(key, "("))
		to := keys[nd.Choose("to", 0, 7)]
		lk, lt := strings.ToLower(key), strings.ToLower(to)
		nd.Assume(lk != lt && !strings.HasPrefix(lt, lk+"."))
		g2, err = Move(g, bp, key, to, nd.Bool("desc"))
	}
	if err != nil {
		nd.Cover("refused")
		// a refused edit must not have modified the graph it was given
		after := oBoardBodies(g)
		for k, v := range before {
			nd.Assert(after[k] == v, "a refused edit leaves every board as it was")
		}
		return
	}
	nd.Cover("edited")
	after := oBoardBodies(g2)
	for k, v := range before {
		if k == self {
			continue
		}
		nd.Assert(after[k] == v, "an edit addressed to one board changed another board")
	}
	oStable(g2)
}

// ---- C36 (import update): UpdateImport rewrites or removes every import of a
// path and nothing else, and its result is compilable and formatter-stable.

func oImports(n d2ast.Node, out map[string]int) {
	if imp, ok := n.(*d2ast.Import); ok {
		out[imp.PathWithPre()]++
	}
	for _, ch := range n.Children() {
		oImports(ch, out)
	}
}

// VerifC36Imports: a program of 1..K statements from a menu of import forms
// (spread at file level and inside a container, as a value, as a primary value
// next to a map, of the path being changed and of another path) and plain
// statements; the path is removed, renamed or moved into a directory.
func VerifC36Imports() {
	menu := []string{"...@shared", "x: @shared", "...@other", "y: @other", "z: {\n  ...@shared\n  w\n}", "t: [...@shared; 1]", "p", "q: {\n  r: @shared\n}", "...@dir/shared", "u: @dir/other"}
	k := nd.Choose("k", 1, nd.Param("K", 3))
	var text string
	inArray := false
	for i := 0; i < k; i++ {
		st := nd.Choose("st"+strconv.Itoa(i), 0, len(menu)-1)
		inArray = inArray || st == 5
		text += menu[st] + "\n"
	}
	old := []string{"shared", "dir/", "dir/shared"}[nd.Choose("old", 0, 2)]
	var newPath *string
	if nd.Bool("rename") {
		np := []string{"moved", "lib/moved", "lib/", "../up"}[nd.Choose("new", 0, 3)]
		// a directory is renamed to a directory, a file to a file
		nd.Assume(strings.HasSuffix(old, "/") == strings.HasSuffix(np, "/"))
		newPath = &np
	}
	ast0, err := d2parser.Parse("index.d2", strings.NewReader(text), nil)
	nd.Assert(err == nil, "the program parses")
	before := map[string]int{}
	oImports(ast0, before)
	res, err := UpdateImport(text, old, newPath)
	nd.Assert(err == nil, "UpdateImport succeeds on a program that parses")
	nd.Cover("updated")
	ast1, err := d2parser.Parse("index.d2", strings.NewReader(res), nil)
	nd.Assert(err == nil, "the result of an import update parses")
	nd.Assert(d2format.Format(ast1) == res, "the formatter leaves the result of an import update unchanged")
	after := map[string]int{}
	oImports(ast1, after)
	// reference: every import of the old path (or below the old directory) is gone or renamed, the others are kept
	want := map[string]int{}
	for p, c := range before {
		hit := p == old || (strings.HasSuffix(old, "/") && strings.HasPrefix(p, old))
		switch {
		case !hit:
			want[p] += c
		case newPath == nil:
		case strings.HasSuffix(old, "/"):
			want[*newPath+p[len(old):]] += c
		default:
			want[*newPath] += c
		}
	}
	for p, c := range want {
		nd.Assert(after[p] == c, "an import that should have been kept or renamed is missing after the update")
	}
	for p, c := range after {
		nd.Assert(want[p] == c, "an import of the old path survives the update (or an import appeared)")
	}
	// with the old file gone and the new one in place the result compiles
	files := map[string]string{"other.d2": "o1\n", "dir/other.d2": "o2\n", "moved.d2": "m\n", "lib/moved.d2": "m\n", "lib/shared.d2": "m\n", "lib/other.d2": "o3\n", "../up.d2": "m\n"}
	for p := range after {
		if _, ok := files[p+".d2"]; !ok {
			files[p+".d2"] = "s\n"
		}
	}
	delete(files, old+".d2")
	if inArray {
		// a file cannot be spread into an array (only an array inside it can): such programs are
		// rejected by the compiler before and after the update, only the rewriting is checked
		return
	}
	_, _, err = d2compiler.Compile("index.d2", strings.NewReader(res), &d2compiler.CompileOptions{FS: d2compiler.VFS(files)})
	nd.Assert(err == nil, "the result of an import update compiles once the file has moved")
}

// ---- C37 / C39 on diagrams whose labels do not come from the element's own key

// VerifC37Inherited: Set on an element whose current label or style comes from
// a class, a glob or a later re-definition, and on the first of two
// definitions of a connection: afterwards the element has exactly the given
// value and the other elements are unchanged.
func VerifC37Inherited() {
	bases := []string{
		"classes: {k: {label: CL}}\na.class: k\nb.class: k\nc: LC\n",
		"*.label: GL\na\nb\n",
		"a: L1\nb: LB\na: L2\n",
		"a -> b: one\na -> b: two\n(a -> b)[0]: first\n",
		"classes: {k: {style.opacity: 0.3}}\na.class: k\nb.class: k\n",
		"a: LA\nb: LB\n**.style.opacity: 0.3\n",
	}
	bi := nd.Choose("base", 0, len(bases)-1)
	g := oCompile(bases[bi])
	nd.Assert(g != nil, "the base compiles")
	v := nd.From("val", 1, "xX1")
	attr := ""
	if bi >= 4 {
		attr, v = ".style.opacity", []string{"0.5", "1", "0"}[nd.Choose("op", 0, 2)]
	}
	key := "a"
	if bi == 3 {
		key = []string{"(a -> b)[0]", "(a -> b)[1]"}[nd.Choose("edge", 0, 1)]
	}
	if nd.Known("C37-set-label-under-class-or-glob") && (bi == 0 || bi == 1 || bi == 5) {
		// recorded finding: the new value is written at the element's own key, where a
		// `label` field coming from a class or a glob, or a glob declared later in the
		// file, overrides it
		return
	}
	g2, err := Set(g, nil, key+attr, nil, &v)
	if err != nil {
		nd.Cover("refused")
		return
	}
	nd.Cover("set")
	get := func(gr *d2graph.Graph, k string) (label, opacity string, ok bool) {
		if strings.HasPrefix(k, "(") {
			e := oEdgeByID(gr, k)
			if e == nil {
				return "", "", false
			}
			if e.Style.Opacity != nil {
				opacity = e.Style.Opacity.Value
			}
			return e.Label.Value, opacity, true
		}
		o := oObjByID(gr, k)
		if o == nil {
			return "", "", false
		}
		if o.Style.Opacity != nil {
			opacity = o.Style.Opacity.Value
		}
		return o.Label.Value, opacity, true
	}
	l2, o2, ok := get(g2, key)
	nd.Assert(ok, "Set: the element exists afterwards")
	if attr == "" {
		nd.Assert(l2 == v, "Set: the label equals the given value exactly")
	} else {
		nd.Assert(o2 == v, "Set: the style attribute equals the given value exactly")
	}
	for _, k := range []string{"a", "b", "c", "(a -> b)[0]", "(a -> b)[1]"} {
		if k == key {
			continue
		}
		l1, o1, ok1 := get(g, k)
		l3, o3, ok3 := get(g2, k)
		nd.Assert(ok1 == ok3 && l1 == l3 && o1 == o3, "Set: another element changed")
	}
	oStable(g2)
}

// VerifC39FlatKeys: Move and Rename of objects declared through flat keys
// (`a.b: LB {...}`) and of objects carrying styles keep every label and style.
func VerifC39FlatKeys() {
	bases := []string{
		"a.b: LB {\n  c: LC\n}\nx: LX\n",
		"a.b.c: LC\nx: LX\n",
		"a: LA {\n  style.fill: red\n  c: LC\n}\nx: LX\n",
		"p: LP {\n  a: LA {\n    style.fill: red\n    c: LC\n  }\n}\nx: LX\n",
		"a.b: LB\na.b.style.fill: red\nx: LX\n",
	}
	bi := nd.Choose("base", 0, len(bases)-1)
	g := oCompile(bases[bi])
	nd.Assert(g != nil, "the base compiles")
	keys := []string{"a", "a.b", "a.b.c", "p.a", "a.c", "p.a.c"}
	key := keys[nd.Choose("key", 0, len(keys)-1)]
	src := oObjByID(g, key)
	nd.Assume(src != nil)
	desc := nd.Bool("desc")
	dst := []string{"x", "", "x.y"}[nd.Choose("dst", 0, 2)]
	name := key[strings.LastIndex(key, ".")+1:]
	to := name
	if dst != "" {
		to = dst + "." + name
	}
	nd.Assume(!strings.EqualFold(to, key) && !strings.HasPrefix(strings.ToLower(to), strings.ToLower(key)+"."))
	labels := func(gr *d2graph.Graph) map[string]int {
		m := map[string]int{}
		for _, o := range gr.Objects {
			l := o.Label.Value
			if o.Style.Fill != nil {
				l += " fill=" + o.Style.Fill.Value
			}
			if l != o.ID {
				m[l]++
			}
		}
		return m
	}
	before := labels(g)
	g2, err := Move(g, nil, key, to, desc)
	if err != nil {
		nd.Cover("refused")
		return
	}
	nd.Cover("moved")
	after := labels(g2)
	for l, c := range before {
		nd.Assert(after[l] == c, "Move: a label or style of the diagram was lost or moved to another object")
	}
	moved := oObjByID(g2, to)
	nd.Assert(moved != nil && moved.Label.Value == src.Label.Value, "Move: the moved object keeps its label under its new ID")
	oStable(g2)
}
