package d2animate

import (
	nd "oss.terrastruct.com/d2/internal/verifnd"
)

// VerifC33: keyframes of an n-board animation with interval T, exactly as Wrap builds them.
func VerifC33() {
	n := nd.Choose("n", nd.Param("NMIN", 1), nd.Param("NMAX", 4))
	T := nd.IntRange("T", 2, nd.Param("TMAX", 1000000))
	nd.CaptureFormats(true)
	const tol = 1e-5
	prevEnd := -1.0
	prevAfter := -1.0
	for i := 0; i < n; i++ {
		s := makeKeyframe(i*T, T, n*T, i, "h")
		fs := nd.FloatsOf(s)
		nd.CaptureFormats(false)
		nd.Assert(len(fs) == 3 || len(fs) == 4, "keyframe has 3 or 4 percentages")
		before, start, end := fs[0], fs[1], fs[2]
		nd.Cover("frame")
		nd.Assert(before >= 0 && before <= start+tol, "0 <= before <= start")
		nd.Assert(start <= end+tol, "start <= end")
		nd.Assert(end <= 100+tol, "end <= 100")
		if len(fs) == 4 {
			after := fs[3]
			nd.Assert(end <= after+tol && after <= 100+tol, "end <= after <= 100")
			nd.Assert(i < n-1, "only the last board may use the stay-until-100% form")
			prevAfter = after
		} else {
			nd.Cover("last-form")
			nd.Assert(i == n-1, "a board before the last must fade out again (otherwise two boards are visible)")
		}
		if i > 0 {
			nd.Assert(prevEnd <= start+tol, "board i-1 stops being fully visible before board i is")
			nd.Assert(prevAfter <= start+tol, "board i-1 is invisible when board i is fully visible")
		}
		prevEnd = end
		nd.CaptureFormats(true)
	}
}
