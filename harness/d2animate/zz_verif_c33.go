package d2animate

import (
	nd "oss.terrastruct.com/d2/internal/verifnd"
)

const c33Tol = 1e-5

// c33Frame runs makeKeyframe for board i of n with interval T exactly as Wrap
// does and returns (before, start, end, after, fadesOut).
func c33Frame(i, n, T int) (before, start, end, after float64, fades bool) {
	nd.CaptureFormats(true)
	s := makeKeyframe(i*T, T, n*T, i, "h")
	fs := nd.FloatsOf(s)
	nd.CaptureFormats(false)
	nd.Assert(len(fs) == 3 || len(fs) == 4, "keyframe has 3 or 4 percentages")
	before, start, end = fs[0], fs[1], fs[2]
	after = 100
	if len(fs) == 4 {
		after = fs[3]
		fades = true
	}
	return
}

// VerifC33: keyframes of an n-board animation with interval T, exactly as Wrap builds them.
func VerifC33() {
	n := nd.Choose("n", nd.Param("NMIN", 1), nd.Param("NMAX", 4))
	T := nd.IntRange("T", 2, nd.Param("TMAX", 1000000))
	prevEnd := -1.0
	prevAfter := -1.0
	for i := 0; i < n; i++ {
		before, start, end, after, fades := c33Frame(i, n, T)
		nd.Cover("frame")
		nd.Assert(before >= 0 && before <= start+c33Tol, "0 <= before <= start")
		nd.Assert(start <= end+c33Tol, "start <= end")
		nd.Assert(end <= after+c33Tol && after <= 100+c33Tol, "end <= after <= 100")
		if !fades {
			nd.Cover("stays-until-100")
			nd.Assert(i == n-1, "a board before the last must fade out again (otherwise two boards are visible)")
		}
		// board i is shown during the i-th interval of the cycle
		lo := float64(100*i) / float64(n)
		hi := float64(100*(i+1)) / float64(n)
		nd.Assert(start >= lo-c33Tol && start <= lo+c33Tol, "board i becomes fully visible at the start of interval i")
		nd.Assert(end <= hi+c33Tol && after <= hi+c33Tol, "board i is gone by the end of interval i")
		if i > 0 {
			nd.Assert(prevEnd <= start+c33Tol, "board i-1 stops being fully visible before board i is")
			nd.Assert(prevAfter <= start+c33Tol, "board i-1 is invisible when board i is fully visible")
			nd.Assert(before >= prevEnd-c33Tol, "board i starts fading in only when board i-1 starts fading out")
		}
		prevEnd, prevAfter = end, after
	}
}

// VerifC33Penultimate: the board before the last one of n boards must fade
// out, for every n up to NMAX (the form is chosen from a rounded percentage).
func VerifC33Penultimate() {
	n := nd.Choose("n", nd.Param("NMIN", 2), nd.Param("NMAX", 64))
	T := nd.IntRange("T", 2, nd.Param("TMAX", 1000000))
	if nd.Known("C33-ceil-100-boards") {
		nd.Assume(n <= 100)
	}
	_, _, end, after, fades := c33Frame(n-2, n, T)
	nd.Cover("penultimate")
	nd.Assert(fades, "the board before the last must fade out again (otherwise two boards are visible)")
	nd.Assert(end <= after+c33Tol && after <= float64(100*(n-1))/float64(n)+c33Tol, "it is invisible by the start of the last interval")
}
