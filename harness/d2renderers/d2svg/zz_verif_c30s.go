package d2svg

import (
	"bytes"

	"oss.terrastruct.com/d2/d2target"
	nd "oss.terrastruct.com/d2/internal/verifnd"
	"oss.terrastruct.com/d2/lib/color"
	"oss.terrastruct.com/d2/lib/geo"
)

// c30Fragment scans a piece of SVG: elements with attributes in double or
// single quotes, text, comments. It returns false on anything that is not
// well-formed: a raw '<' or an unknown '&' reference in text or in an
// attribute value, an attribute without quotes, a stray quote inside a tag,
// unbalanced elements. The number of elements and attributes is returned so
// that a harness can assert user text did not add any.
func c30Fragment(s string) (ok bool, elements, attrs int) {
	depth := 0
	i := 0
	entity := func() bool { // s[i] == '&'
		j := i + 1
		for j < len(s) && s[j] != ';' && j-i < 10 {
			j++
		}
		if j >= len(s) || s[j] != ';' {
			return false
		}
		switch s[i+1 : j] {
		case "amp", "lt", "gt", "quot", "apos", "#34", "#39", "#x9", "#xA", "#xD", "#160":
		default:
			return false
		}
		i = j + 1
		return true
	}
	name := func() bool {
		st := i
		for i < len(s) && (s[i] >= 'a' && s[i] <= 'z' || s[i] >= 'A' && s[i] <= 'Z' || s[i] >= '0' && s[i] <= '9' || s[i] == '-' || s[i] == ':' || s[i] == '_') {
			i++
		}
		return i > st
	}
	for i < len(s) {
		c := s[i]
		if c == '&' {
			if !entity() {
				return false, 0, 0
			}
			continue
		}
		if c != '<' {
			if c == '>' {
				// a raw '>' in text is legal XML but EscapeText never leaves one: user text got out
				return false, 0, 0
			}
			i++
			continue
		}
		i++
		if i < len(s) && s[i] == '/' {
			i++
			if !name() || i >= len(s) || s[i] != '>' {
				return false, 0, 0
			}
			i++
			depth--
			if depth < 0 {
				return false, 0, 0
			}
			continue
		}
		if !name() {
			return false, 0, 0
		}
		elements++
		for {
			for i < len(s) && (s[i] == ' ' || s[i] == '\n' || s[i] == '\t') {
				i++
			}
			if i >= len(s) {
				return false, 0, 0
			}
			if s[i] == '>' {
				i++
				depth++
				break
			}
			if s[i] == '/' {
				if i+1 >= len(s) || s[i+1] != '>' {
					return false, 0, 0
				}
				i += 2
				break
			}
			if !name() || i+1 >= len(s) || s[i] != '=' {
				return false, 0, 0
			}
			i++
			q := s[i]
			if q != '"' && q != '\'' {
				return false, 0, 0
			}
			i++
			attrs++
			for i < len(s) && s[i] != q {
				if s[i] == '<' {
					return false, 0, 0
				}
				if s[i] == '&' {
					if !entity() {
						return false, 0, 0
					}
					continue
				}
				i++
			}
			if i >= len(s) {
				return false, 0, 0
			}
			i++
		}
	}
	return depth == 0, elements, attrs
}

const c30Alphabet = "a\"'<>& =/"

// VerifC30Shape: the real drawShape on a rectangle whose label, tooltip, link,
// class names and ID are user text with markup characters: the fragment is
// well-formed and has exactly the elements and attributes it has for harmless
// text of the same length.
func VerifC30Shape() {
	mk := func(label, tooltip, link, class, id string) (string, error) {
		s := d2target.BaseShape()
		s.ID, s.Type = id, d2target.ShapeRectangle
		s.Pos = d2target.Point{X: 10, Y: 10}
		s.Width, s.Height = 100, 60
		s.Label, s.LabelWidth, s.LabelHeight, s.LabelPosition = label, 20, 20, "INSIDE_MIDDLE_CENTER"
		s.Tooltip, s.Link = tooltip, link
		if class != "" {
			s.Classes = []string{"c1", class}
		}
		var buf, appendix bytes.Buffer
		_, err := drawShape(&buf, &appendix, "h", *s, nil, nil)
		return buf.String() + appendix.String(), err
	}
	which := nd.Choose("field", 0, 4)
	n := nd.Choose("len", 1, nd.Param("NS", 2))
	u := nd.From("u", n, c30Alphabet)
	plain := "aaaa"[:n]
	f := []string{"a", "", "", "", "x"}
	g := []string{"a", "", "", "", "x"}
	f[which], g[which] = u, plain
	if which == 1 || which == 2 || which == 3 {
		// tooltip, link and the second class name are optional: present in both renderings
	}
	out, err := mk(f[0], f[1], f[2], f[3], f[4])
	nd.Assert(err == nil, "the shape is drawn")
	ref, err := mk(g[0], g[1], g[2], g[3], g[4])
	nd.Assert(err == nil, "the reference shape is drawn")
	nd.Cover("drawn")
	ok, el, at := c30Fragment(out)
	okr, elr, atr := c30Fragment(ref)
	nd.Assert(okr, "the fragment drawn for harmless text is well-formed (scanner self-check)")
	nd.Assert(ok, "user text broke the markup of the drawn shape")
	nd.Assert(el == elr && at == atr, "user text added elements or attributes to the drawn shape")
}

// VerifC30Gradient: the SVG definition generated for a user-written gradient.
func VerifC30Gradient() {
	n := nd.Choose("len", 1, nd.Param("NG", 3))
	u := nd.From("u", n, "a\"<>& ,%)(#1")
	kind := []string{"linear-gradient(", "radial-gradient(", "linear-gradient(to right,", "radial-gradient(circle,"}[nd.Choose("kind", 0, 3)]
	css := kind + "red," + u + ")"
	if !color.IsGradient(css) {
		nd.Cover("not-a-gradient")
		return
	}
	gr, err := color.ParseGradient(css)
	if err != nil {
		nd.Cover("rejected")
		return
	}
	nd.Cover("gradient")
	out := color.GradientToSVG(gr)
	ok, el, at := c30Fragment(out)
	nd.Assert(ok, "user text broke the markup of the gradient definition")
	stops := len(gr.ColorStops)
	nd.Assert(el == 1+stops, "user text added elements to the gradient definition")
	want := 1 + 2*stops
	if gr.Type == "linear" {
		want += 4
	}
	nd.Assert(at == want, "user text added attributes to the gradient definition")
	_ = geo.NewPoint
}

// VerifStubGradientID replaces the SHA-1 based gradient ID (hashing is
// environment for this check: the ID is a hex string whatever the input).
func VerifStubGradientID(cssGradient string) string { return "grad-0" }
