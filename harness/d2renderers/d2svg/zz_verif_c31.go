package d2svg

import (
	"strings"

	"oss.terrastruct.com/d2/d2target"
	"oss.terrastruct.com/d2/d2themes"
	"oss.terrastruct.com/d2/d2themes/d2themescatalog"
	nd "oss.terrastruct.com/d2/internal/verifnd"
)

var c31Codes = []string{"N1", "N2", "N3", "N4", "N5", "N6", "N7", "B1", "B2", "B3", "B4", "B5", "B6", "AA2", "AA4", "AA5", "AB4", "AB5"}

func c31Set(o *d2target.ThemeOverrides, code string, v *string) {
	switch code {
	case "N1":
		o.N1 = v
	case "N2":
		o.N2 = v
	case "N3":
		o.N3 = v
	case "N4":
		o.N4 = v
	case "N5":
		o.N5 = v
	case "N6":
		o.N6 = v
	case "N7":
		o.N7 = v
	case "B1":
		o.B1 = v
	case "B2":
		o.B2 = v
	case "B3":
		o.B3 = v
	case "B4":
		o.B4 = v
	case "B5":
		o.B5 = v
	case "B6":
		o.B6 = v
	case "AA2":
		o.AA2 = v
	case "AA4":
		o.AA4 = v
	case "AA5":
		o.AA5 = v
	case "AB4":
		o.AB4 = v
	case "AB5":
		o.AB5 = v
	}
}

// c31Catalogue reads a theme's colour for a code straight from the catalogue data.
func c31Catalogue(t d2themes.Theme, code string) string {
	c, n := t.Colors, t.Colors.Neutrals
	m := map[string]string{"N1": n.N1, "N2": n.N2, "N3": n.N3, "N4": n.N4, "N5": n.N5, "N6": n.N6, "N7": n.N7,
		"B1": c.B1, "B2": c.B2, "B3": c.B3, "B4": c.B4, "B5": c.B5, "B6": c.B6, "AA2": c.AA2, "AA4": c.AA4, "AA5": c.AA5, "AB4": c.AB4, "AB5": c.AB5}
	return m[code]
}

// VerifC31Themes: for every catalogue theme and every set of overrides (none,
// exactly one code, all codes) each theme colour code resolves to the theme's
// colour or the override, in the stylesheet rules and in ResolveThemeColor.
func VerifC31Themes() {
	all := append(append([]d2themes.Theme{}, d2themescatalog.LightCatalog...), d2themescatalog.DarkCatalog...)
	ti := nd.Choose("theme", 0, len(all)-1)
	theme := all[ti]
	ov := &d2target.ThemeOverrides{}
	val := "#12ab3" + string("0123456789abcdef"[nd.Choose("digit", 0, 1)*7])
	mode := nd.Choose("mode", 0, 2)
	which := -1
	switch mode {
	case 1:
		which = nd.Choose("which", 0, len(c31Codes)-1)
		c31Set(ov, c31Codes[which], &val)
	case 2:
		for _, c := range c31Codes {
			c31Set(ov, c, &val)
		}
	}
	id := theme.ID
	css, err := ThemeCSS("d2-hash", &id, nil, ov, nil)
	nd.Assert(err == nil, "the stylesheet of a catalogue theme is produced")
	nd.Cover("css")
	resolved := d2themescatalog.Find(id)
	resolved.ApplyOverrides(ov)
	for i, code := range c31Codes {
		want := c31Catalogue(theme, code)
		if mode == 2 || i == which {
			want = val
		}
		nd.Assert(d2themes.ResolveThemeColor(resolved, code) == want, "a theme colour code resolves to the override or the theme's colour")
		for _, prop := range []string{"fill", "stroke", "background-color", "color"} {
			rule := ".d2-hash ." + prop + "-" + code + "{" + prop + ":" + want + ";}"
			nd.Assert(strings.Contains(css, rule), "the stylesheet maps every theme colour class to the override or the theme's colour")
		}
	}
	// the catalogue theme itself is not modified by applying overrides to a copy
	nd.Assert(c31Catalogue(d2themescatalog.Find(id), "B5") == c31Catalogue(theme, "B5"), "overrides do not leak into the catalogue")
}
