package d2ascii

import (
	"context"
	"strings"

	"oss.terrastruct.com/d2/d2renderers/d2ascii/charset"
	"oss.terrastruct.com/d2/d2target"
	nd "oss.terrastruct.com/d2/internal/verifnd"
	"oss.terrastruct.com/d2/lib/geo"
)

var c32Types = []string{d2target.ShapeRectangle, d2target.ShapeSquare, d2target.ShapePage, d2target.ShapeHexagon, d2target.ShapePerson, d2target.ShapeStoredData,
	d2target.ShapeCylinder, d2target.ShapePackage, d2target.ShapeParallelogram, d2target.ShapeQueue, d2target.ShapeStep, d2target.ShapeCallout, d2target.ShapeDocument,
	d2target.ShapeDiamond, d2target.ShapeClass, d2target.ShapeSQLTable, d2target.ShapeCloud, d2target.ShapeCircle, d2target.ShapeOval, d2target.ShapeCode, d2target.ShapeText, d2target.ShapeImage}

// c32Shape draws a shape; rich: everything about it is a choice, otherwise only its type.
func c32Shape(tag string, x, y int, rich bool) d2target.Shape {
	s := d2target.BaseShape()
	s.ID = tag
	nt := nd.Param("TYPES", len(c32Types))
	if tag == "b" {
		nt = nd.Param("TYPESB", 3)
	}
	s.Type = c32Types[nd.Choose(tag+"type", 0, nt-1)]
	s.Pos = d2target.Point{X: x, Y: y}
	s.Width, s.Height, s.Label, s.LabelPosition = 90, 66, "hello", "INSIDE_MIDDLE_CENTER"
	if rich {
		s.Width = []int{90, 53, 200, 30}[nd.Choose(tag+"w", 0, nd.Param("SIZES", 4)-1)]
		s.Height = []int{66, 18, 130, 40}[nd.Choose(tag+"h", 0, nd.Param("SIZES", 4)-1)]
		s.Label = []string{"a", "hello", "", "Ab c"}[nd.Choose(tag+"label", 0, nd.Param("LABELS", 4)-1)]
		s.LabelPosition = []string{"INSIDE_MIDDLE_CENTER", "OUTSIDE_TOP_CENTER", "OUTSIDE_BOTTOM_CENTER", "INSIDE_TOP_LEFT"}[nd.Choose(tag+"lp", 0, nd.Param("LPS", 4)-1)]
		s.Multiple = nd.Bool(tag + "multiple")
		// layout sizes a shape to fit its label
		nd.Assume(s.Width >= 10*len(s.Label)+20 || s.Label == "")
	}
	// what the exporter records for the label
	s.LabelWidth, s.LabelHeight = 8*len(s.Label), 21
	if s.Type == d2target.ShapeClass {
		s.Class = d2target.Class{Fields: []d2target.ClassField{{Name: "f", Type: "int", Visibility: "public"}}, Methods: []d2target.ClassMethod{{Name: "m()", Return: "void", Visibility: "private"}}}
	}
	if s.Type == d2target.ShapeSQLTable {
		s.SQLTable = d2target.SQLTable{Columns: []d2target.SQLColumn{{Name: d2target.Text{Label: "id"}, Type: d2target.Text{Label: "int"}, Constraint: []string{"primary_key"}}}}
	}
	return *s
}

// VerifC32Render: rendering a laid-out diagram as text never crashes; with the
// standard character set the output is 7-bit ASCII (the labels here are ASCII);
// the single-line label of a plain shape appears in the output.
func VerifC32Render() {
	d := d2target.NewDiagram()
	two := nd.Bool("two")
	// one shape with everything about it a choice, or two shapes of any types with a connection
	a := c32Shape("a", []int{0, -40, 12}[nd.Choose("ax", 0, 2)], []int{0, -30}[nd.Choose("ay", 0, 1)], !two)
	d.Shapes = append(d.Shapes, a)
	if two {
		b := c32Shape("b", a.Pos.X+a.Width+[]int{80, 0, 300}[nd.Choose("gapx", 0, 2)], a.Pos.Y+[]int{0, 150, -90}[nd.Choose("gapy", 0, 2)], false)
		d.Shapes = append(d.Shapes, b)
		if nd.Bool("conn") {
			c := d2target.BaseConnection()
			c.ID = "(a -> b)[0]"
			c.Src, c.Dst = "a", "b"
			arrows := []d2target.Arrowhead{d2target.NoArrowhead, d2target.TriangleArrowhead, d2target.DiamondArrowhead, d2target.CfManyRequired}
			c.SrcArrow = arrows[nd.Choose("srcarrow", 0, 3)]
			c.DstArrow = arrows[nd.Choose("dstarrow", 0, 3)]
			c.Label = []string{"", "x", "long label"}[nd.Choose("clabel", 0, 2)]
			// layout leaves room for a connection's label between its ends
			nd.Assume(b.Pos.X-(a.Pos.X+a.Width) >= 10*len(c.Label)+40 || c.Label == "")
			if c.Label != "" {
				// what the exporter sets for a labelled connection
				c.LabelPosition = "INSIDE_MIDDLE_CENTER"
				c.LabelWidth, c.LabelHeight = 8*len(c.Label), 21
			}
			sx, sy := float64(a.Pos.X+a.Width), float64(a.Pos.Y+a.Height/2)
			ex, ey := float64(b.Pos.X), float64(b.Pos.Y+b.Height/2)
			switch nd.Choose("route", 0, 2) {
			case 0:
				c.Route = []*geo.Point{{X: sx, Y: sy}, {X: ex, Y: ey}}
			case 1:
				c.Route = []*geo.Point{{X: sx, Y: sy}, {X: (sx + ex) / 2, Y: sy}, {X: (sx + ex) / 2, Y: ey}, {X: ex, Y: ey}}
			case 2: // a self loop on a
				c.Dst = "a"
				c.Route = []*geo.Point{{X: sx, Y: sy}, {X: sx + 40, Y: sy}, {X: sx + 40, Y: sy + 30}, {X: sx, Y: sy + 30}}
			}
			d.Connections = append(d.Connections, *c)
		}
	}
	cs := charset.ASCII
	if nd.Bool("unicode") {
		cs = charset.Unicode
	}
	out, err := NewASCIIartist().Render(context.Background(), d, &RenderOpts{Charset: cs})
	nd.Assert(err == nil, "text rendering succeeds")
	nd.Cover("rendered")
	if cs == charset.ASCII {
		for _, ch := range out {
			nd.Assert(ch < 128, "the standard character set gives 7-bit ASCII")
		}
	}
	text := string(out)
	for _, s := range d.Shapes {
		plain := s.Type == d2target.ShapeRectangle || s.Type == d2target.ShapeSquare
		if plain && s.Label != "" && !s.Multiple && !two {
			nd.Assert(strings.Contains(text, s.Label), "the label of a plain shape appears in the output")
		}
	}
}
