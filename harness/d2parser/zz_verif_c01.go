package d2parser

import (
	"strings"

	"oss.terrastruct.com/d2/d2ast"
	nd "oss.terrastruct.com/d2/internal/verifnd"
)

func c01CheckResult(m *d2ast.Map, err error) {
	nd.Cover("parsed")
	nd.Assert(m != nil, "Parse returns a non-nil map")
	if err != nil {
		pe, ok := err.(*ParseError)
		nd.Assert(ok, "error is a *ParseError")
		nd.Assert(len(pe.Errors) > 0, "non-nil error carries at least one positioned error")
	}
}

// VerifC01Bytes: Parse on every byte string of length <= N (invalid UTF-8, BOMs included).
func VerifC01Bytes() {
	n := nd.Choose("len", 0, nd.Param("N", 2))
	s := nd.String("s", n)
	m, err := Parse("f.d2", strings.NewReader(s), nil)
	c01CheckResult(m, err)
}

// VerifC01UTF16: input starting with a UTF-16 LE byte-order mark.
func VerifC01UTF16() {
	n := nd.Choose("len", 0, nd.Param("N", 2))
	s := "\xff\xfe" + nd.String("s", n)
	m, err := Parse("f.d2", strings.NewReader(s), nil)
	c01CheckResult(m, err)
}

// VerifC01Key: the single-key / map-key / value entry points.
func VerifC01Key() {
	n := nd.Choose("len", 0, nd.Param("N", 2))
	s := nd.String("s", n)
	switch nd.Choose("entry", 0, 2) {
	case 0:
		k, err := ParseKey(s)
		nd.Cover("key")
		nd.Assert(err != nil || k != nil, "ParseKey returns a key or an error")
	case 1:
		k, err := ParseMapKey(s)
		nd.Cover("mapkey")
		nd.Assert(err != nil || k != nil, "ParseMapKey returns a key or an error")
	case 2:
		v, err := ParseValue(s)
		nd.Cover("value")
		nd.Assert(err != nil || v != nil, "ParseValue returns a value or an error")
	}
}

// VerifC01Alphabet: strings longer than the all-bytes bound over a small
// alphabet of the characters that drive the parser's special cases (glob
// stars, substitutions, escapes, block strings, arrays, imports, edge groups),
// through the file parser and the value entry point.
func VerifC01Alphabet() {
	n := nd.Choose("len", 0, nd.Param("NA", 5))
	s := nd.From("s", n, "a*${}:\\|[]@.&()-> '\"\n;#")
	if nd.Bool("value") {
		v, err := ParseValue(s)
		nd.Cover("value")
		nd.Assert(err != nil || v != nil, "ParseValue returns a value or an error")
		return
	}
	m, err := Parse("f.d2", strings.NewReader(s), nil)
	c01CheckResult(m, err)
}

// VerifC01Subst: unquoted values with a substitution in the middle: text of
// 0..K characters over a small alphabet before and after it (the parser
// keeps glob-pattern offsets into a buffer that a substitution flushes).
func VerifC01Subst() {
	k := nd.Param("K", 3)
	pre := nd.From("pre", nd.Choose("prelen", 0, k), "a*\\ .")
	post := nd.From("post", nd.Choose("postlen", 0, k), "a*\\ $")
	s := pre + "${" + []string{"", "x", "x.y"}[nd.Choose("var", 0, 2)] + "}" + post
	switch nd.Choose("entry", 0, 2) {
	case 0:
		v, err := ParseValue(s)
		nd.Cover("value")
		nd.Assert(err != nil || v != nil, "ParseValue returns a value or an error")
	case 1:
		m, err := Parse("f.d2", strings.NewReader("k: "+s+"\n"), nil)
		c01CheckResult(m, err)
	case 2:
		m, err := Parse("f.d2", strings.NewReader("k: ["+s+"; "+s+"]\n"), nil)
		c01CheckResult(m, err)
	}
}
