package d2parser

import (
	"strings"

	"oss.terrastruct.com/d2/d2ast"
	nd "oss.terrastruct.com/d2/internal/verifnd"
)

// c02Ref computes line/column of byte offset off in s (UTF-8 mode, ASCII input).
func c02Ref(s string, off int) (line, col int) {
	for i := 0; i < off && i < len(s); i++ {
		if s[i] == '\n' {
			line++
			col = 0
		} else {
			col++
		}
	}
	return
}

func c02CheckPos(s string, p d2ast.Position, what string) {
	nd.Assert(p.Byte >= 0 && p.Byte <= len(s), what+": offset lies inside the input")
	l, c := c02Ref(s, p.Byte)
	nd.Assert(p.Line == l && p.Column == c, what+": line and column agree with the byte offset")
}

func c02CheckRange(s string, r d2ast.Range, what string) {
	c02CheckPos(s, r.Start, what+" start")
	c02CheckPos(s, r.End, what+" end")
	nd.Assert(r.Start.Byte <= r.End.Byte, what+": starts no later than it ends")
}

func c02Walk(s string, n d2ast.Node, parent d2ast.Range, depth int) {
	if n == nil || depth > 12 {
		return
	}
	r := n.GetRange()
	nd.Cover("node")
	c02CheckRange(s, r, "node")
	known := false
	if _, ok := n.(*d2ast.Substitution); ok && nd.Known("C02-unterminated-substitution-range") {
		// recorded finding: an unterminated ${ at the end of the input extends past the string node holding it
		known = r.End.Byte == len(s) && r.Start.Byte <= len(s) && !strings.Contains(s[r.Start.Byte:], "}")
	}
	if !known {
		nd.Assert(parent.Start.Byte <= r.Start.Byte && r.End.Byte <= parent.End.Byte, "node range nests inside its parent's range")
	}
	for _, ch := range n.Children() {
		c02Walk(s, ch, r, depth+1)
	}
}

// VerifC02ASCII: ranges of every node and error of Parse(s), s ASCII of length <= N, UTF-8 positions.
func VerifC02ASCII() {
	n := nd.Choose("len", 0, nd.Param("N", 2))
	s := nd.ASCII("s", n)
	m, err := Parse("f.d2", strings.NewReader(s), nil)
	nd.Assert(m != nil, "Parse returns a map")
	whole := d2ast.Range{Start: d2ast.Position{}, End: d2ast.Position{Byte: len(s)}}
	c02Walk(s, m, whole, 0)
	if err != nil {
		if pe, ok := err.(*ParseError); ok {
			for _, e := range pe.Errors {
				nd.Cover("error")
				if nd.Known("C02-missing-value-after-continuation") && strings.HasSuffix(e.Message, "missing value after colon") && strings.Contains(s, "\\\n") {
					// recorded finding: start is computed as pos.Subtract(':') after a line continuation
					c02CheckPos(s, e.Range.End, "error end")
					continue
				}
				c02CheckRange(s, e.Range, "error")
			}
		}
	}
}
