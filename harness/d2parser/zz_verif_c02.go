package d2parser

import (
	"strings"

	"oss.terrastruct.com/d2/d2ast"
	nd "oss.terrastruct.com/d2/internal/verifnd"
)

// c02Ref computes line/column of byte offset off in s (UTF-8 mode, ASCII input).
func c02Ref(s string, off int) (line, col int) {
	for i := 0; i < off && i < len(s); i++ {
		if s[i] == '\n' {
			line++
			col = 0
		} else {
			col++
		}
	}
	return
}

func c02CheckPos(s string, p d2ast.Position, what string) {
	nd.Assert(p.Byte >= 0 && p.Byte <= len(s), what+": offset lies inside the input")
	l, c := c02Ref(s, p.Byte)
	nd.Assert(p.Line == l && p.Column == c, what+": line and column agree with the byte offset")
}

func c02CheckRange(s string, r d2ast.Range, what string) {
	c02CheckPos(s, r.Start, what+" start")
	c02CheckPos(s, r.End, what+" end")
	nd.Assert(r.Start.Byte <= r.End.Byte, what+": starts no later than it ends")
}

func c02Walk(s string, n d2ast.Node, parent d2ast.Range, depth int) {
	if n == nil || depth > 12 {
		return
	}
	r := n.GetRange()
	nd.Cover("node")
	c02CheckRange(s, r, "node")
	known := false
	if _, ok := n.(*d2ast.Substitution); ok && nd.Known("C02-unterminated-substitution-range") {
		// recorded finding: an unterminated ${ at the end of the input extends past the string node holding it
		known = r.End.Byte == len(s) && r.Start.Byte <= len(s) && !strings.Contains(s[r.Start.Byte:], "}")
	}
	if _, ok := n.(*d2ast.Substitution); ok && !known && nd.Known("C02-string-range-ends-before-substitution") {
		// recorded finding: the range of an unquoted string ends at its last plain character:
		// a substitution at its end starts inside the string's range and ends after it
		known = parent.Start.Byte <= r.Start.Byte && r.Start.Byte <= parent.End.Byte && r.End.Byte > parent.End.Byte
	}
	if !known {
		nd.Assert(parent.Start.Byte <= r.Start.Byte && r.End.Byte <= parent.End.Byte, "node range nests inside its parent's range")
	}
	for _, ch := range n.Children() {
		c02Walk(s, ch, r, depth+1)
	}
}

// VerifC02ASCII: ranges of every node and error of Parse(s), s ASCII of length <= N, UTF-8 positions.
func VerifC02ASCII() {
	n := nd.Choose("len", 0, nd.Param("N", 2))
	s := nd.ASCII("s", n)
	m, err := Parse("f.d2", strings.NewReader(s), nil)
	nd.Assert(m != nil, "Parse returns a map")
	whole := d2ast.Range{Start: d2ast.Position{}, End: d2ast.Position{Byte: len(s)}}
	c02Walk(s, m, whole, 0)
	if err != nil {
		if pe, ok := err.(*ParseError); ok {
			for _, e := range pe.Errors {
				nd.Cover("error")
				if nd.Known("C02-missing-value-after-continuation") && strings.HasSuffix(e.Message, "missing value after colon") && strings.Contains(s, "\\\n") {
					// recorded finding: start is computed as pos.Subtract(':') after a line continuation
					c02CheckPos(s, e.Range.End, "error end")
					continue
				}
				c02CheckRange(s, e.Range, "error")
			}
		}
	}
}

// ---- UTF-8 / UTF-16 positions on non-ASCII input, key segments

type c02Bound struct{ byteOff, unitOff, line, col int }

// c02Bounds lists every rune boundary of s with its offset, line and column
// counted in UTF-8 bytes, or in UTF-16 code units when utf16 is set
// (independent reference: runes below U+10000 are one unit, others two).
func c02Bounds(s string, utf16 bool) []c02Bound {
	var out []c02Bound
	off, line, col := 0, 0, 0
	i := 0
	for {
		out = append(out, c02Bound{i, off, line, col})
		if i >= len(s) {
			return out
		}
		r, w := rune(s[i]), 1
		if r >= 0x80 {
			r, w = utf8DecodeRef(s[i:])
		}
		u := w
		if utf16 {
			u = 1
			if r >= 0x10000 {
				u = 2
			}
		}
		i += w
		off += u
		if r == '\n' {
			line++
			col = 0
		} else {
			col += u
		}
	}
}

// utf8DecodeRef decodes one rune by the UTF-8 definition (RFC 3629); an
// ill-formed sequence is one byte wide and decodes to U+FFFD.
func utf8DecodeRef(s string) (rune, int) {
	b0 := s[0]
	need := 0
	var r, min rune
	switch {
	case b0 >= 0xC2 && b0 <= 0xDF:
		need, r, min = 1, rune(b0&0x1F), 0x80
	case b0 >= 0xE0 && b0 <= 0xEF:
		need, r, min = 2, rune(b0&0x0F), 0x800
	case b0 >= 0xF0 && b0 <= 0xF4:
		need, r, min = 3, rune(b0&0x07), 0x10000
	default:
		return 0xFFFD, 1
	}
	if len(s) < 1+need {
		return 0xFFFD, 1
	}
	for j := 1; j <= need; j++ {
		c := s[j]
		if c < 0x80 || c > 0xBF {
			return 0xFFFD, 1
		}
		r = r<<6 | rune(c&0x3F)
	}
	if r < min || r > 0x10FFFF || (r >= 0xD800 && r <= 0xDFFF) {
		return 0xFFFD, 1
	}
	return r, 1 + need
}

func c02Find(bs []c02Bound, p d2ast.Position, what string) c02Bound {
	for _, b := range bs {
		if b.unitOff == p.Byte {
			nd.Assert(p.Line == b.line && p.Column == b.col, what+": line and column agree with the offset")
			return b
		}
	}
	nd.Fail(what + ": offset is not a character boundary inside the input")
	return c02Bound{}
}

// c02Segments: when the input parses without errors, the source text of every
// segment of a declared key (object key or connection endpoint) parses back to
// that segment's value.
var c02Segments bool

// c02DashBeforeTerminator: from off on, spaces and dashes follow and the last
// dash stands directly before a line end or one of ; # { } [ ].
func c02DashBeforeTerminator(s string, off int) bool {
	j := off
	for j < len(s) && (s[j] == ' ' || s[j] == '-') {
		j++
	}
	return j > off && j < len(s) && s[j-1] == '-' && strings.IndexByte("\n;#{}[]", s[j]) >= 0
}

func c02WalkU(s string, bs []c02Bound, n d2ast.Node, parent d2ast.Range, depth int) {
	if n == nil || depth > 12 {
		return
	}
	r := n.GetRange()
	nd.Cover("node")
	st := c02Find(bs, r.Start, "node start")
	en := c02Find(bs, r.End, "node end")
	nd.Assert(r.Start.Byte <= r.End.Byte, "node starts no later than it ends")
	known := false
	if _, ok := n.(*d2ast.Substitution); ok && nd.Known("C02-unterminated-substitution-range") {
		known = en.byteOff == len(s) && !strings.Contains(s[st.byteOff:], "}")
	}
	if _, ok := n.(*d2ast.Substitution); ok && !known && nd.Known("C02-string-range-ends-before-substitution") {
		// recorded finding: the range of an unquoted string ends at its last plain character:
		// a substitution at its end starts inside the string's range and ends after it
		known = parent.Start.Byte <= r.Start.Byte && r.Start.Byte <= parent.End.Byte && r.End.Byte > parent.End.Byte
	}
	if _, ok := n.(*d2ast.Array); ok {
		if nd.Known("C02-array-range-includes-lookahead") {
			// recorded finding: the end of an array is taken from the reader position,
			// which includes whatever was looked ahead after the closing bracket; only
			// the start of an array is checked while the finding is open
			known = true
			nd.Assert(parent.Start.Byte <= r.Start.Byte && r.Start.Byte <= parent.End.Byte, "array starts inside its parent's range")
			if r.End.Byte > parent.End.Byte {
				r.End = parent.End
			}
		} else if en.byteOff > st.byteOff && strings.Contains(s[st.byteOff:en.byteOff], "]") {
			nd.Assert(s[en.byteOff-1] == ']', "a terminated array ends with its closing bracket")
		}
	}
	if !known {
		nd.Assert(parent.Start.Byte <= r.Start.Byte && r.End.Byte <= parent.End.Byte, "node range nests inside its parent's range")
	}
	if _, isImport := n.(*d2ast.Import); isImport {
		return
	}
	if kp, ok := n.(*d2ast.KeyPath); ok && c02Segments {
		for _, seg := range kp.Path {
			sr := seg.Unbox().GetRange()
			a, b := c02Find(bs, sr.Start, "segment start"), c02Find(bs, sr.End, "segment end")
			if a.byteOff > b.byteOff {
				continue // reported by the ordering assertion of the segment node
			}
			nd.Cover("segment")
			if b.byteOff > a.byteOff && s[b.byteOff-1] == '\\' && nd.Known("C02-trailing-escape-range") {
				// recorded finding: the range of an unquoted string that ends in an escape
				// sequence stops after the backslash
				continue
			}
			if c02DashBeforeTerminator(s, b.byteOff) && nd.Known("C02-dash-before-terminator-range") {
				// recorded finding: a dash directly before a line end or ; # { } [ ] is part of
				// the string's value but not of its range
				continue
			}
			// the text is parsed as it stands in the input: followed by something
			// (a dash at the very end of a key text would start a connection)
			k2, err := ParseKey(s[a.byteOff:b.byteOff] + " ")
			nd.Assert(err == nil && k2 != nil && len(k2.Path) == 1, "the source text of a key segment parses as one key segment")
			nd.Assert(k2.Path[0].Unbox().ScalarString() == seg.Unbox().ScalarString(), "the source text of a key segment parses back to the segment's value")
		}
	}
	for _, ch := range n.Children() {
		c02WalkU(s, bs, ch, r, depth+1)
	}
}

func c02CheckU(s string, utf16 bool) {
	m, err := Parse("f.d2", strings.NewReader(s), &ParseOptions{UTF16Pos: utf16})
	nd.Assert(m != nil, "Parse returns a map")
	bs := c02Bounds(s, utf16)
	c02Segments = err == nil
	whole := d2ast.Range{Start: d2ast.Position{}, End: d2ast.Position{Byte: bs[len(bs)-1].unitOff}}
	c02WalkU(s, bs, m, whole, 0)
	if err != nil {
		if pe, ok := err.(*ParseError); ok {
			for _, e := range pe.Errors {
				nd.Cover("error")
				if nd.Known("C02-missing-value-after-continuation") && strings.HasSuffix(e.Message, "missing value after colon") && strings.Contains(s, "\\\n") {
					continue
				}
				c02Find(bs, e.Range.Start, "error start")
				c02Find(bs, e.Range.End, "error end")
				nd.Assert(e.Range.Start.Byte <= e.Range.End.Byte, "error starts no later than it ends")
			}
		}
	}
}

func c02RuneString(name string) string {
	r := nd.Rune(name)
	// one representative class per encoded length keeps the solver's work on
	// the encoder small; every code point of the class is covered
	return string(utf8AppendRef(nil, r))
}

func utf8AppendRef(b []byte, r rune) []byte {
	switch {
	case r < 0x80:
		return append(b, byte(r))
	case r < 0x800:
		return append(b, 0xC0|byte(r>>6), 0x80|byte(r)&0x3F)
	case r >= 0xD800 && r <= 0xDFFF:
		return append(b, 0xEF, 0xBF, 0xBD)
	case r < 0x10000:
		return append(b, 0xE0|byte(r>>12), 0x80|byte(r>>6)&0x3F, 0x80|byte(r)&0x3F)
	}
	return append(b, 0xF0|byte(r>>18), 0x80|byte(r>>12)&0x3F, 0x80|byte(r>>6)&0x3F, 0x80|byte(r)&0x3F)
}

// VerifC02Runes: positions in UTF-8 and UTF-16 mode on inputs with arbitrary
// code points in key, value, quoted and block-string positions.
func VerifC02Runes() {
	utf16 := nd.Bool("utf16")
	x, y := c02RuneString("x"), c02RuneString("y")
	var s string
	switch nd.Choose("shape", 0, nd.Param("SHAPES", 5)-1) {
	case 0:
		s = x + ": " + y + "\n" + x
	case 1:
		s = "a" + x + "." + y + " -> b\nc"
	case 2:
		s = "'" + x + "': \"" + y + "\"\nd: |" + x + "|"
	case 3:
		s = x + y
	case 4:
		s = "a: {\n ..." + x + "\n}\n" + y + ":"
	}
	c02CheckU(s, utf16)
}

// VerifC02Alpha: every string of length <= N over a 12-character alphabet of
// D2 punctuation, both position modes, including the key-segment check.
func VerifC02Alpha() {
	n := nd.Choose("len", 1, nd.Param("NA", 4))
	s := nd.From("s", n, ".:x \n{}-*$@'")
	c02CheckU(s, nd.Bool("utf16"))
}

// VerifC02Arrays: arrays with 0..NH characters of content and what follows the
// closing bracket, both position modes.
func VerifC02Arrays() {
	h := nd.From("h", nd.Choose("hl", 0, nd.Param("NH", 2)), "a;' 1\n[]#")
	tail := []string{"", "\n", " \n", "\nb", " # c\n", "; b\n", "\n\n"}[nd.Choose("tail", 0, 6)]
	c02CheckU("a: ["+h+"]"+tail, nd.Bool("utf16"))
}
