package svg

import (
	"encoding/base64"

	nd "oss.terrastruct.com/d2/internal/verifnd"
)

// c30Decode reads escaped XML character data back: entity and character
// references are decoded, any other '&', and any '<', '>', '"' or '\'' is an
// injection (ok=false).
func c30Decode(s string) (out []rune, ok bool) {
	i := 0
	for i < len(s) {
		c := s[i]
		switch c {
		case '<', '>', '"', '\'':
			return nil, false
		case '&':
			j := i + 1
			for j < len(s) && s[j] != ';' && j-i < 10 {
				j++
			}
			if j >= len(s) || s[j] != ';' {
				return nil, false
			}
			switch s[i+1 : j] {
			case "amp":
				out = append(out, '&')
			case "lt":
				out = append(out, '<')
			case "gt":
				out = append(out, '>')
			case "#34":
				out = append(out, '"')
			case "#39":
				out = append(out, '\'')
			case "#x9":
				out = append(out, '\t')
			case "#xA":
				out = append(out, '\n')
			case "#xD":
				out = append(out, '\r')
			default:
				return nil, false
			}
			i = j + 1
			continue
		}
		if c < 0x80 {
			out = append(out, rune(c))
			i++
			continue
		}
		// multi-byte sequences are copied as they are by the escaper; U+FFFD stands for invalid input
		out = append(out, rune(c))
		i++
	}
	return out, true
}

// c30XMLChar: characters allowed in XML 1.0 documents (others become U+FFFD).
func c30XMLChar(r rune) bool {
	return r == 0x09 || r == 0x0A || r == 0x0D || (r >= 0x20 && r <= 0xD7FF) || (r >= 0xE000 && r <= 0xFFFD) || (r >= 0x10000 && r <= 0x10FFFF)
}

// VerifC30Escape: user text written with EscapeText appears only as character
// data: no raw markup characters, and it reads back as the same text (ASCII
// control characters that XML cannot carry become U+FFFD).
func VerifC30Escape() {
	n := nd.Choose("len", 0, nd.Param("N", 3))
	s := nd.ASCII("s", n)
	out := EscapeText(s)
	nd.Cover("escaped")
	dec, ok := c30Decode(out)
	nd.Assert(ok, "escaped text contains no raw markup character and only known references")
	// expected: the same characters, with those outside the XML character range replaced by U+FFFD (3 bytes EF BF BD)
	var want []rune
	for i := 0; i < len(s); i++ {
		if c30XMLChar(rune(s[i])) {
			want = append(want, rune(s[i]))
		} else {
			want = append(want, 0xEF, 0xBF, 0xBD)
		}
	}
	nd.Assert(len(dec) == len(want), "escaped text reads back with the same length")
	for i := range want {
		nd.Assert(dec[i] == want[i], "escaped text reads back as the same text")
	}
}

// VerifC30IDs: identifiers derived from user IDs only use attribute-safe alphabets.
func VerifC30IDs() {
	n := nd.Choose("len", 0, nd.Param("NI", 3))
	s := nd.String("s", n)
	id := SVGID(s)
	nd.Cover("id")
	for i := 0; i < len(id); i++ {
		c := id[i]
		nd.Assert((c >= 'A' && c <= 'Z') || (c >= '2' && c <= '7'), "SVGID only uses base32 characters")
	}
	class := base64.URLEncoding.EncodeToString([]byte(EscapeText(s)))
	for i := 0; i < len(class); i++ {
		c := class[i]
		nd.Assert((c >= 'A' && c <= 'Z') || (c >= 'a' && c <= 'z') || (c >= '0' && c <= '9') || c == '-' || c == '_' || c == '=', "class names derived from IDs only use URL-safe base64 characters")
	}
}
