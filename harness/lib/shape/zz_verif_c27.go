package shape

import (
	"oss.terrastruct.com/d2/lib/geo"
	nd "oss.terrastruct.com/d2/internal/verifnd"
)

// Shape types whose fit arithmetic the solver decides: all but oval (Atan2,
// Sin, Cos, Pow). Cloud is checked through GetInnerBoxForContent as d2graph does.
var c27Types = []string{
	SQUARE_TYPE, REAL_SQUARE_TYPE, PARALLELOGRAM_TYPE, DOCUMENT_TYPE, CYLINDER_TYPE, QUEUE_TYPE, PAGE_TYPE,
	PACKAGE_TYPE, STEP_TYPE, CALLOUT_TYPE, STORED_DATA_TYPE, PERSON_TYPE, C4_PERSON_TYPE, DIAMOND_TYPE,
	CIRCLE_TYPE, HEXAGON_TYPE, CLOUD_TYPE, TABLE_TYPE, CLASS_TYPE, TEXT_TYPE, CODE_TYPE, IMAGE_TYPE,
}

// one-pixel rounding tolerance: fitted sizes are rounded to whole pixels (math.Ceil/Round)
const c27Tol = 1.0

// VerifC27Fit: for every shape type, content size and padding, the size chosen
// to fit the content gives an inner box at least as large as content plus
// padding that lies inside the shape's box.
func VerifC27Fit() {
	ti := nd.Choose("type", nd.Param("TMIN", 0), nd.Param("TMAX", len(c27Types)-1))
	nd.Assume(nd.Param("SKIP", 0)&(1<<uint(ti)) == 0)
	t := c27Types[ti]
	wmax, pmax := nd.Param("WMAX", 4096), nd.Param("PMAX", 256)
	w := nd.Dyadic("w", 1, wmax, 1)
	h := nd.Dyadic("h", 1, wmax, 1)
	px := nd.Dyadic("px", 0, pmax, 1)
	py := nd.Dyadic("py", 0, pmax, 1)
	s0 := NewShape(t, geo.NewBox(geo.NewPoint(0, 0), w, h))
	fw, fh := s0.GetDimensionsToFit(w, h, px, py)
	nd.Cover("fitted")
	nd.Assert(fw >= w && fh >= h, "the fitted size is at least the content size")
	if s0.AspectRatio1() {
		nd.Assert(fw == fh, "shapes with aspect ratio 1 are fitted as squares")
	}
	s := NewShape(t, geo.NewBox(geo.NewPoint(0, 0), fw, fh))
	in := s.GetInnerBox()
	if t == CLOUD_TYPE {
		in = s.GetInnerBoxForContent(w, h)
	}
	tw, th := c27Tol, c27Tol
	if t == CIRCLE_TYPE && nd.Known("C27-circle-inner-ceil") {
		// recorded finding: the inner square of a fitted circle is up to 1.5 px smaller than the content
		tw, th = 2, 2
	}
	if t == C4_PERSON_TYPE && nd.Known("C27-c4person-vertical-padding") {
		// recorded finding: the fit adds 6% of the width as vertical padding, the inner box removes 6% of the height
		nd.Assume(fh <= fw)
	}
	nd.Assert(in.Width+tw >= w+px, "the inner box is wide enough for content and padding")
	nd.Assert(in.Height+th >= h+py, "the inner box is high enough for content and padding")
	nd.Assert(in.TopLeft.X >= -tw && in.TopLeft.Y >= -th, "the inner box starts inside the shape's box")
	nd.Assert(in.TopLeft.X+in.Width <= fw+tw && in.TopLeft.Y+in.Height <= fh+th, "the inner box ends inside the shape's box")
}
