package imgbundler

import (
	"context"
	"errors"
	"strconv"
	"strings"

	"oss.terrastruct.com/d2/lib/simplelog"
	nd "oss.terrastruct.com/d2/internal/verifnd"
)

// The engine executes this function in place of worker (which reads files or
// fetches URLs): every image loads or fails according to a symbolic bit.
var c46Hrefs = []string{"a.png", "b.png", "dir/c.png", "a.png2"}
var c46Fail [4]bool

func c46Index(href string) int {
	for i, h := range c46Hrefs {
		if h == href {
			return i
		}
	}
	return -1
}

func c46Data(i int) string { return "data:image/png;base64,QUJD" + strconv.Itoa(i) }

func VerifStubWorker(ctx context.Context, l simplelog.Logger, inputPath string, href []byte, isRemote, cacheImages bool) ([]byte, error) {
	i := c46Index(string(href))
	if i < 0 {
		return nil, errors.New("unexpected href " + string(href))
	}
	if c46Fail[i] {
		return nil, errors.New("cannot load")
	}
	return []byte("<image href=\"" + c46Data(i) + "\""), nil
}

// VerifC46Bundle: bundling replaces every eligible image reference with the
// data URI of that image, leaves every other byte unchanged and reports exactly
// the references that could not be loaded, for every order in which the
// concurrent workers finish or fail (the schedule is a symbolic choice).
func VerifC46Bundle() {
	n := nd.Choose("images", 1, nd.Param("IMGS", 3))
	var sb strings.Builder
	sb.WriteString("<svg><text>a.png b.png</text>")
	var used []int
	for k := 0; k < n; k++ {
		i := nd.Choose("href"+strconv.Itoa(k), 0, len(c46Hrefs)-1)
		used = append(used, i)
		sb.WriteString("<image href=\"" + c46Hrefs[i] + "\" width=\"1\"/>")
	}
	// references that are not eligible: already bundled, remote
	sb.WriteString("<image href=\"data:image/png;base64,AAAA\"/><image href=\"https://example.com/r.png\"/></svg>")
	for i := range c46Fail {
		c46Fail[i] = nd.Bool("fail" + strconv.Itoa(i))
	}
	in := sb.String()
	out, err := bundle(context.Background(), simplelog.Make(nil, nil, nil), "in.d2", []byte(in), false, false)
	nd.Cover("bundled")
	want := in
	anyFail := false
	seen := map[int]bool{}
	for _, i := range used {
		if seen[i] {
			continue
		}
		seen[i] = true
		if c46Fail[i] {
			anyFail = true
			nd.Assert(err != nil && strings.Contains(err.Error(), c46Hrefs[i]), "a reference that could not be loaded is reported")
			continue
		}
		want = strings.ReplaceAll(want, "<image href=\""+c46Hrefs[i]+"\"", "<image href=\""+c46Data(i)+"\"")
		if err != nil {
			nd.Assert(!strings.Contains(err.Error(), "["+c46Hrefs[i]+"]") && !strings.Contains(err.Error(), " "+c46Hrefs[i]+"]") && !strings.Contains(err.Error(), "["+c46Hrefs[i]+" "), "a reference that was loaded is not reported")
		}
	}
	nd.Assert((err != nil) == anyFail, "an error is returned exactly when some reference could not be loaded")
	nd.Assert(string(out) == want, "every eligible reference is replaced and every other byte is unchanged, whatever the order of the workers")
}
