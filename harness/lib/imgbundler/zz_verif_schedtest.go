package imgbundler

import (
	"sync"

	nd "oss.terrastruct.com/d2/internal/verifnd"
)

// Engine self-tests for the cooperative scheduler (not a property check).

// VerifSchedOK: producers send over an unbuffered channel, a collector sums; correct under every schedule.
func VerifSchedOK() {
	c := make(chan int)
	var wg sync.WaitGroup
	for i := 1; i <= 3; i++ {
		i := i
		wg.Add(1)
		go func() {
			defer wg.Done()
			c <- i
		}()
	}
	go func() {
		wg.Wait()
		close(c)
	}()
	sum := 0
	for v := range c {
		sum += v
	}
	nd.Cover("summed")
	nd.Assert(sum == 6, "all values arrive exactly once")
}

// VerifSchedRace: an unprotected read-modify-write across a synchronisation point loses an update under some schedule.
func VerifSchedRace() {
	var mu sync.Mutex
	x := 0
	var wg sync.WaitGroup
	for i := 0; i < 2; i++ {
		wg.Add(1)
		go func() {
			defer wg.Done()
			mu.Lock()
			t := x
			mu.Unlock()
			mu.Lock()
			x = t + 1
			mu.Unlock()
		}()
	}
	wg.Wait()
	nd.Assert(x == 2, "both increments are seen (false under an interleaving)")
}

// VerifSchedDeadlock: two goroutines taking two locks in opposite order can deadlock.
func VerifSchedDeadlock() {
	var a, b sync.Mutex
	done := make(chan struct{}, 2)
	go func() { a.Lock(); b.Lock(); b.Unlock(); a.Unlock(); done <- struct{}{} }()
	go func() { b.Lock(); a.Lock(); a.Unlock(); b.Unlock(); done <- struct{}{} }()
	<-done
	<-done
}

// VerifSchedSelect: select with default, buffered coalescing channel.
func VerifSchedSelect() {
	req := make(chan struct{}, 1)
	got := 0
	for i := 0; i < 3; i++ {
		select {
		case req <- struct{}{}:
		default:
		}
	}
	stop := make(chan struct{})
	fin := make(chan struct{})
	go func() {
		for {
			select {
			case <-req:
				got++
			case <-stop:
				close(fin)
				return
			}
		}
	}()
	close(stop)
	<-fin
	nd.Cover("done")
	nd.Assert(got <= 1, "a coalescing channel of capacity one delivers at most one request")
}
