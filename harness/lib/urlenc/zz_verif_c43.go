package urlenc

import (
	"compress/flate"
	"errors"
	"io"

	nd "oss.terrastruct.com/d2/internal/verifnd"
)

// ---- DEFLATE stand-in (engine only; natively the real compress/flate runs).
// compress/flate on symbolic data (hash chains, Huffman tables over symbolic
// indices) is out of reach of the solver, so the engine executes these
// functions in place of the named compress/flate ones. They implement the
// subset of RFC 1951 that consists of stored blocks only, which is a valid
// DEFLATE coder: Write buffers, Flush emits a non-final stored block, Close
// emits the final one; the reader accepts stored blocks only and fails with
// io.ErrUnexpectedEOF on a stream without a final block. What this decides is
// the glue of urlenc (which encoding, Close before reading the buffer, error
// paths), not DEFLATE itself.

type c43W struct {
	dst io.Writer
	buf []byte
}

var c43Writers = map[*flate.Writer]*c43W{}

func VerifStubFlateNewWriterDict(w io.Writer, level int, dict []byte) (*flate.Writer, error) {
	fw := &flate.Writer{}
	c43Writers[fw] = &c43W{dst: w}
	return fw, nil
}

func VerifStubFlateWrite(fw *flate.Writer, p []byte) (int, error) {
	st := c43Writers[fw]
	st.buf = append(st.buf, p...)
	return len(p), nil
}

func c43Block(st *c43W, final byte) error {
	n := len(st.buf)
	hdr := []byte{final, byte(n), byte(n >> 8), ^byte(n), ^byte(n >> 8)}
	if _, err := st.dst.Write(append(hdr, st.buf...)); err != nil {
		return err
	}
	st.buf = nil
	return nil
}

func VerifStubFlateFlush(fw *flate.Writer) error { return c43Block(c43Writers[fw], 0) }
func VerifStubFlateClose(fw *flate.Writer) error { return c43Block(c43Writers[fw], 1) }

type c43R struct {
	src  io.Reader
	out  []byte
	done bool
	err  error
}

func (r *c43R) fill() {
	r.done = true
	all, err := io.ReadAll(r.src)
	if err != nil {
		r.err = err
		return
	}
	for {
		if len(all) < 5 {
			r.err = io.ErrUnexpectedEOF
			return
		}
		final := all[0]
		if final > 1 {
			r.err = errors.New("flate stand-in: not a stored block")
			return
		}
		n := int(all[1]) | int(all[2])<<8
		if all[3] != ^all[1] || all[4] != ^all[2] || len(all) < 5+n {
			r.err = flate.CorruptInputError(0)
			return
		}
		r.out = append(r.out, all[5:5+n]...)
		all = all[5+n:]
		if final == 1 {
			return
		}
	}
}

func (r *c43R) Read(p []byte) (int, error) {
	if !r.done {
		r.fill()
	}
	if len(r.out) == 0 {
		if r.err != nil {
			return 0, r.err
		}
		return 0, io.EOF
	}
	n := copy(p, r.out)
	r.out = r.out[n:]
	return n, nil
}

func (r *c43R) Close() error { return nil }

func VerifStubFlateNewReaderDict(r io.Reader, dict []byte) io.ReadCloser { return &c43R{src: r} }

// VerifC43RoundTrip: Decode(Encode(s)) == s and the encoded form only uses
// URL-safe characters, for every byte string up to N bytes.
func VerifC43RoundTrip() {
	n := nd.Choose("len", 0, nd.Param("N", 4))
	s := nd.String("s", n)
	enc, err := Encode(s)
	nd.Assert(err == nil, "encoding succeeds")
	nd.Cover("encoded")
	for i := 0; i < len(enc); i++ {
		c := enc[i]
		ok := (c >= 'A' && c <= 'Z') || (c >= 'a' && c <= 'z') || (c >= '0' && c <= '9') || c == '-' || c == '_' || c == '='
		nd.Assert(ok, "the encoded form only uses URL-safe characters")
	}
	dec, err := Decode(enc)
	nd.Assert(err == nil, "the encoded form decodes")
	nd.Assert(dec == s, "decoding the encoded form returns exactly the script")
	nd.Observe(len(dec))
}
