package d2lsp

import (
	"strings"

	"oss.terrastruct.com/d2/d2ast"
	"oss.terrastruct.com/d2/d2parser"
	nd "oss.terrastruct.com/d2/internal/verifnd"
)

// VerifC42Completion: completion requests at any position never crash
// (a panic escaping the entry is reported by the engine). Negative positions
// are not requests an editor can make and are outside the claim.
func VerifC42Completion() {
	var text string
	if nd.Bool("tpl") {
		h := nd.From("h", nd.Choose("hl", 0, 2), "a.: \n{s")
		switch nd.Choose("t", 0, 5) {
		case 0:
			text = "x.style." + h
		case 1:
			text = "x: {\n  shape:" + h + "\n}"
		case 2:
			text = "x -> y: {\n  source-arrowhead." + h
		case 3:
			text = "x.style.opacity: " + h + "\ny.near:" + h
		case 4:
			text = h + "x: {\n  style: {\n    " + h
		case 5:
			text = "layers: {\n a: {\n  x.label." + h + "\n }\n}"
		}
	} else {
		text = nd.From("s", nd.Choose("len", 0, nd.Param("N", 4)), "as.:{}\n ")
	}
	line := nd.IntRange("line", 0, 6)
	col := nd.IntRange("col", 0, 12)
	items, err := GetCompletionItems(text, line, col)
	nd.Cover("completed")
	nd.Assert(err == nil || items == nil, "an error comes without items")
}

// c42RefBoard: the innermost board whose block contains pos, computed by a
// reference walk over the parsed tree (board blocks are the maps one level
// below a layers/scenarios/steps map at the root of a board).
func c42RefBoard(m *d2ast.Map, pos d2ast.Position) []string {
	var best []string
	var walk func(board *d2ast.Map, path []string)
	in := func(r d2ast.Range) bool {
		return !pos.Before(r.Start) && pos.Before(r.End)
	}
	walk = func(board *d2ast.Map, path []string) {
		if !in(board.Range) {
			return
		}
		best = path
		for _, n := range board.Nodes {
			if n.MapKey == nil || n.MapKey.Key == nil || len(n.MapKey.Key.Path) != 1 || n.MapKey.Value.Map == nil {
				continue
			}
			kw := n.MapKey.Key.Path[0].Unbox().ScalarString()
			if kw != "layers" && kw != "scenarios" && kw != "steps" {
				continue
			}
			holder := n.MapKey.Value.Map
			if in(holder.Range) {
				for _, bn := range holder.Nodes {
					if bn.MapKey == nil || bn.MapKey.Key == nil || len(bn.MapKey.Key.Path) != 1 || bn.MapKey.Value.Map == nil {
						continue
					}
					walk(bn.MapKey.Value.Map, append(append([]string{}, path...), kw, bn.MapKey.Key.Path[0].Unbox().ScalarString()))
				}
			}
		}
	}
	walk(m, []string{})
	return best
}

// VerifC42Board: the board reported for a cursor position is the innermost
// board whose block contains the position.
func VerifC42Board() {
	text := "x\nlayers: {\n  a: {\n    y\n    layers: {\n      b: {\n        z\n      }\n    }\n    scenarios: { s: { w } }\n  }\n  c: { v }\n}\nsteps: {\n  t: {\n    u: { not: aboard }\n  }\n}\n"
	lines := strings.Split(text, "\n")
	line := nd.Choose("line", 0, len(lines)-1)
	col := nd.IntRange("col", 0, 24)
	nd.Assume(col <= len(lines[line]))
	pos := d2ast.Position{Line: line, Column: col, Byte: -1}
	got, err := GetBoardAtPosition(text, pos)
	nd.Assert(err == nil, "the template parses")
	m, _ := d2parser.Parse("", strings.NewReader(text), nil)
	want := c42RefBoard(m, pos)
	nd.Cover("located")
	if len(want) > 0 {
		nd.Cover("nested")
	}
	nd.Assert(strings.Join(got, "/") == strings.Join(want, "/"), "the reported board is the innermost board containing the position")
}
