package d2target

import (
	"strings"

	nd "oss.terrastruct.com/d2/internal/verifnd"
)

// VerifC47Corpus: the character corpus handed to the font subsetter contains
// every character of every text a board draws (labels, tooltips, links, class
// members, table columns, connection and arrowhead labels, legend entries),
// also for nested boards. Only this corpus is decided; the subsetting of the
// font binary is outside the engine's reach.
func VerifC47Corpus() {
	c := nd.From("c", 1, "aZ9_%")
	mk := func(tag string) string { return tag + c }
	s := Shape{Type: ShapeRectangle}
	s.Label = mk("l1")
	s.Tooltip = mk("t1")
	s.Link = mk("k1")
	s.PrettyLink = mk("p1")
	cls := Shape{Type: ShapeClass}
	cls.Label = mk("l2")
	cls.Fields = []ClassField{{Name: mk("f1"), Type: mk("f2"), Visibility: "private"}}
	cls.Methods = []ClassMethod{{Name: mk("m1"), Return: mk("m2"), Visibility: "protected"}}
	tbl := Shape{Type: ShapeSQLTable}
	tbl.Label = mk("l3")
	tbl.Columns = []SQLColumn{{Name: Text{Label: mk("c1")}, Type: Text{Label: mk("c2")}, Constraint: []string{"primary_key"}}}
	conn := Connection{}
	conn.Label = mk("e1")
	conn.SrcLabel = &Text{Label: mk("e2")}
	conn.DstLabel = &Text{Label: mk("e3")}
	d := Diagram{Shapes: []Shape{s, cls, tbl}, Connections: []Connection{conn}}
	lg := Shape{Type: ShapeRectangle}
	lg.Label = mk("g2")
	lc := Connection{}
	lc.Label = mk("g3")
	d.Legend = &Legend{Label: mk("g1"), Shapes: []Shape{lg}, Connections: []Connection{lc}}
	ns := Shape{Type: ShapeRectangle}
	ns.Label = mk("n1")
	nested := &Diagram{Name: "n", Shapes: []Shape{ns}}
	switch nd.Choose("kind", 0, 2) {
	case 0:
		d.Layers = []*Diagram{nested}
	case 1:
		d.Scenarios = []*Diagram{nested}
	case 2:
		d.Steps = []*Diagram{nested}
	}
	corpus := d.GetCorpus()
	nd.Cover("corpus")
	for _, want := range []string{"l1", "t1", "k1", "p1", "l2", "f1", "f2", "m1", "m2", "l3", "c1", "c2", "e1", "e2", "e3", "g1", "g2", "g3"} {
		nd.Assert(strings.Contains(corpus, mk(want)), "a drawn text is missing from the font corpus: "+want)
	}
	// the visibility tokens and constraint abbreviations that are drawn as text, and the appendix numbers
	for _, want := range []string{"-", "#", "PK", "1", "2"} {
		nd.Assert(strings.Contains(corpus, want), "a drawn token is missing from the font corpus: "+want)
	}
	all := d.GetNestedCorpus()
	nd.Assert(strings.Contains(all, mk("n1")) && strings.Contains(all, mk("l1")), "the corpus of an animated multi-board SVG covers nested boards")
}
