package d2target

import (
	"oss.terrastruct.com/d2/lib/geo"
	"oss.terrastruct.com/d2/lib/label"
	nd "oss.terrastruct.com/d2/internal/verifnd"
)

var c29Positions = []label.Position{
	label.OutsideTopCenter, label.OutsideLeftMiddle, label.OutsideRightBottom, label.OutsideBottomLeft,
	label.BorderTopCenter, label.InsideMiddleCenter,
	label.OutsideTopLeft, label.OutsideTopRight,
	label.OutsideLeftTop, label.OutsideLeftBottom,
	label.OutsideRightTop, label.OutsideRightMiddle,
	label.OutsideBottomCenter, label.OutsideBottomRight,
	label.InsideTopLeft,
	label.BorderLeftMiddle, label.BorderRightBottom, label.BorderBottomLeft,
}

// c29Shape draws a rectangle-like shape with symbolic geometry and decorations.
func c29Shape(tag string) Shape {
	c := nd.Param("COORD", 2000)
	s := Shape{Type: ShapeRectangle}
	if nd.Param("HEX", 1) > 0 && nd.Bool(tag+"hex") {
		s.Type = ShapeHexagon
	}
	s.Pos = Point{nd.IntRange(tag+"x", -c, c), nd.IntRange(tag+"y", -c, c)}
	s.Width = nd.IntRange(tag+"w", 0, c)
	s.Height = nd.IntRange(tag+"h", 0, c)
	s.StrokeWidth = nd.IntRange(tag+"sw", 0, 15)
	s.Shadow = nd.Bool(tag + "shadow")
	s.ThreeDee = nd.Bool(tag + "3d")
	s.Multiple = nd.Bool(tag + "multiple")
	if nd.Bool(tag + "labelled") {
		s.Label = "L"
		s.LabelWidth = nd.IntRange(tag+"lw", 0, 500)
		s.LabelHeight = nd.IntRange(tag+"lh", 0, 500)
		s.LabelPosition = c29Positions[nd.Choose(tag+"lp", 0, nd.Param("LPS", len(c29Positions))-1)].String()
	}
	return s
}

// slack: the reported box is integer valued, drawn extents are not
const c29Slack = 1

func c29Inside(x1, y1, x2, y2 int, l, t, r, b float64, what string) {
	nd.Assert(float64(x1) <= l+c29Slack && float64(y1) <= t+c29Slack, what+" sticks out of the bounding box (top/left)")
	nd.Assert(float64(x2) >= r-c29Slack && float64(y2) >= b-c29Slack, what+" sticks out of the bounding box (bottom/right)")
}

// VerifC29Shapes: every shape box with stroke, shadow, 3D and multiple
// offsets and its label lies inside the reported bounding box.
func VerifC29Shapes() {
	n := nd.Choose("shapes", 1, nd.Param("SHAPES", 2))
	var d Diagram
	for i := 0; i < n; i++ {
		d.Shapes = append(d.Shapes, c29Shape([]string{"a", "b", "c"}[i]))
	}
	tl, br := d.BoundingBox()
	nd.Cover("box")
	nd.Assert(tl.X <= br.X && tl.Y <= br.Y, "the bounding box is not inverted")
	for _, s := range d.Shapes {
		x, y, w, h := float64(s.Pos.X), float64(s.Pos.Y), float64(s.Width), float64(s.Height)
		half := float64(s.StrokeWidth) / 2
		c29Inside(tl.X, tl.Y, br.X, br.Y, x-half, y-half, x+w+half, y+h+half, "a shape box with its stroke")
		if s.Shadow {
			c29Inside(tl.X, tl.Y, br.X, br.Y, x, y, x+w+SHADOW_SIZE_X, y+h+SHADOW_SIZE_Y, "a shadow")
		}
		if s.ThreeDee {
			off := float64(THREE_DEE_OFFSET)
			offY := off
			if s.Type == ShapeHexagon {
				offY = off / 2
			}
			c29Inside(tl.X, tl.Y, br.X, br.Y, x, y-offY, x+w+off, y+h, "a 3D offset")
		}
		if s.Multiple {
			c29Inside(tl.X, tl.Y, br.X, br.Y, x, y-MULTIPLE_OFFSET, x+w+MULTIPLE_OFFSET, y+h, "a multiple offset")
		}
		if s.Label != "" {
			nd.Cover("label")
			p := label.FromString(s.LabelPosition).GetPointOnBox(geo.NewBox(geo.NewPoint(x, y), w, h), label.PADDING, float64(s.LabelWidth), float64(s.LabelHeight))
			lx, ly := p.X, p.Y
			if s.ThreeDee {
				off := float64(THREE_DEE_OFFSET)
				if s.Type == ShapeHexagon {
					off /= 2
				}
				switch label.FromString(s.LabelPosition) {
				case label.OutsideRightTop, label.OutsideRightMiddle, label.OutsideRightBottom:
					lx += off
				case label.OutsideTopLeft, label.OutsideTopCenter, label.OutsideTopRight:
					ly -= off
				}
			}
			c29Inside(tl.X, tl.Y, br.X, br.Y, lx, ly, lx+float64(s.LabelWidth), ly+float64(s.LabelHeight), "a label")
		}
	}
}

// VerifC29Labels: the label of a shape at every outside, border and inside
// position, alone and together with the 3D offset that moves it.
func VerifC29Labels() {
	c := nd.Param("COORD", 2000)
	s := Shape{Type: ShapeRectangle}
	if nd.Bool("hex") {
		s.Type = ShapeHexagon
	}
	s.Pos = Point{nd.IntRange("x", -c, c), nd.IntRange("y", -c, c)}
	s.Width = nd.IntRange("w", 0, c)
	s.Height = nd.IntRange("h", 0, c)
	s.StrokeWidth = nd.IntRange("sw", 0, 15)
	s.ThreeDee = nd.Bool("3d")
	s.Label = "L"
	s.LabelWidth = nd.IntRange("lw", 0, 500)
	s.LabelHeight = nd.IntRange("lh", 0, 500)
	lp := c29Positions[nd.Choose("lp", 0, len(c29Positions)-1)]
	s.LabelPosition = lp.String()
	d := Diagram{Shapes: []Shape{s}}
	tl, br := d.BoundingBox()
	nd.Cover("box")
	x, y, w, h := float64(s.Pos.X), float64(s.Pos.Y), float64(s.Width), float64(s.Height)
	p := lp.GetPointOnBox(geo.NewBox(geo.NewPoint(x, y), w, h), label.PADDING, float64(s.LabelWidth), float64(s.LabelHeight))
	lx, ly := p.X, p.Y
	if s.ThreeDee {
		off := float64(THREE_DEE_OFFSET)
		if s.Type == ShapeHexagon {
			off /= 2
		}
		switch lp {
		case label.OutsideRightTop, label.OutsideRightMiddle, label.OutsideRightBottom:
			lx += off
		case label.OutsideTopLeft, label.OutsideTopCenter, label.OutsideTopRight:
			ly -= off
		}
	}
	nd.Cover("label")
	c29Inside(tl.X, tl.Y, br.X, br.Y, lx, ly, lx+float64(s.LabelWidth), ly+float64(s.LabelHeight), "a label")
}

// VerifC29Route: every route point of a connection (with its stroke) lies
// inside the bounding box.
func VerifC29Route() {
	var d Diagram
	c := nd.Param("COORD", 2000)
	d.Shapes = append(d.Shapes, Shape{Type: ShapeRectangle, Pos: Point{nd.IntRange("ax", -c, c), nd.IntRange("ay", -c, c)}, Width: nd.IntRange("aw", 0, c), Height: nd.IntRange("ah", 0, c)})
	conn := Connection{StrokeWidth: nd.IntRange("csw", 0, 15)}
	k := nd.Choose("points", 2, nd.Param("POINTS", 3))
	for i := 0; i < k; i++ {
		tag := []string{"p", "q", "r", "s"}[i]
		conn.Route = append(conn.Route, geo.NewPoint(nd.Dyadic(tag+"x", -c, c, 2), nd.Dyadic(tag+"y", -c, c, 2)))
	}
	d.Connections = append(d.Connections, conn)
	tl, br := d.BoundingBox()
	nd.Cover("box")
	for _, p := range conn.Route {
		half := float64(conn.StrokeWidth) / 2
		c29Inside(tl.X, tl.Y, br.X, br.Y, p.X-half, p.Y-half, p.X+half, p.Y+half, "a route point with its stroke")
	}
}
