package d2exporter

import (
	"context"
	"strconv"
	"strings"

	"oss.terrastruct.com/d2/d2compiler"
	"oss.terrastruct.com/d2/d2target"
	"oss.terrastruct.com/d2/d2themes"
	"oss.terrastruct.com/d2/lib/geo"
	nd "oss.terrastruct.com/d2/internal/verifnd"
)

// VerifC28Export: the exported diagram has exactly one shape per object (with
// its absolute ID) and one connection per connection (with its endpoints), and
// every style value the user set appears unchanged under every combination of
// theme special rules.
func VerifC28Export() {
	fill, stroke, fc, sw, dash, pat := "red", "#123", "honeydew", "5", "3", "lines"
	if nd.Bool("zero") {
		// values that are the zero value of their field: set explicitly they are still the user's
		sw, dash = "0", "0"
	}
	shapes := []string{"rectangle", "c4-person", "person", "text", "class", "sql_table", "circle", "hexagon"}
	shape := shapes[nd.Choose("shape", 0, nd.Param("SHAPES", len(shapes))-1)]
	// which attributes the user sets: all of them, all but one, or only one
	mode := nd.Choose("mode", 0, 2)
	which := 0
	if mode > 0 {
		which = nd.Choose("which", 0, 9)
	}
	set := func(i int) bool {
		switch mode {
		case 1:
			return i != which
		case 2:
			return i == which
		}
		return true
	}
	var st []string
	sFill, sStroke, sFC, sSW, sDash, sPat, sRad, sOp, sDB, sBold := set(0), set(1), set(2), set(3), set(4), set(5), set(6), set(7), set(8), set(9)
	sDB = sDB && (shape == "rectangle" || shape == "circle") // double-border is only accepted on these
	if sFill {
		st = append(st, "fill: \""+fill+"\"")
	}
	if sStroke {
		st = append(st, "stroke: \""+stroke+"\"")
	}
	if sFC {
		st = append(st, "font-color: \""+fc+"\"")
	}
	if sSW {
		st = append(st, "stroke-width: "+sw)
	}
	if sDash {
		st = append(st, "stroke-dash: "+dash)
	}
	if sPat {
		st = append(st, "fill-pattern: "+pat)
	}
	if sRad {
		st = append(st, "border-radius: 7")
	}
	if sOp {
		st = append(st, "opacity: 0.4")
	}
	if sDB {
		st = append(st, "double-border: false")
	}
	if sBold {
		st = append(st, "bold: false")
	}
	style := "style: {" + strings.Join(st, "; ") + "}"
	if len(st) == 0 {
		style = "z"
	}
	// connections accept a subset of the style keywords
	var est []string
	if sStroke {
		est = append(est, "stroke: \""+stroke+"\"")
	}
	if sFC {
		est = append(est, "font-color: \""+fc+"\"")
	}
	if sSW {
		est = append(est, "stroke-width: "+sw)
	}
	if sDash {
		est = append(est, "stroke-dash: "+dash)
	}
	if sOp {
		est = append(est, "opacity: 0.4")
	}
	estyle := "style: {" + strings.Join(est, "; ") + "}"
	if len(est) == 0 {
		estyle = "label: e"
	}
	var text string
	switch nd.Choose("where", 0, nd.Param("WHERES", 4)-1) {
	case 0: // a top-level leaf
		text = "x: {shape: " + shape + "; " + style + "}\ny\nx -> y: {" + estyle + "}\n"
	case 1: // a top-level container
		text = "x: {" + style + "; c}\ny\nx.c -> y: {" + estyle + "}\n"
	case 2: // a nested leaf
		text = "p: {x: {shape: " + shape + "; " + style + "}}\ny\np.x -> y: {" + estyle + "}\n"
	case 3: // a group of a sequence diagram and a message inside it
		nd.Assume(!sPat && !sDB && !sRad)
		text = "q: {shape: sequence_diagram; a; b; x: {" + style + "; a -> b: {" + estyle + "}}}\n"
	}
	g, _, err := d2compiler.Compile("index.d2", strings.NewReader(text), nil)
	nd.Assert(err == nil, "the template compiles")
	// geometry as a layout would leave it (the exporter reads it)
	for i, o := range g.Objects {
		o.Box = geo.NewBox(geo.NewPoint(float64(10*i), 0), 100, 50)
	}
	for _, e := range g.Edges {
		e.Route = []*geo.Point{geo.NewPoint(0, 0), geo.NewPoint(10, 10)}
	}
	th := d2themes.Theme{ID: 1000, Name: "symbolic"}
	th.SpecialRules = d2themes.SpecialRules{
		Mono: nd.Bool("mono"), NoCornerRadius: nd.Bool("nocorner"), OuterContainerDoubleBorder: nd.Bool("outerdouble"),
		ContainerDots: nd.Bool("dots"), CapsLock: nd.Bool("caps"), C4: nd.Bool("c4"), AllPaper: nd.Bool("paper"),
	}
	if nd.Bool("themed") {
		g.Theme = &th
	}
	d, err := Export(context.Background(), g, nil, nil)
	nd.Assert(err == nil, "export succeeds")
	nd.Cover("exported")
	nd.Assert(len(d.Shapes) == len(g.Objects), "one shape per object")
	for i, o := range g.Objects {
		nd.Assert(d.Shapes[i].ID == o.AbsID(), "a shape carries its object's absolute ID")
	}
	nd.Assert(len(d.Connections) == len(g.Edges), "one connection per connection")
	for i, e := range g.Edges {
		nd.Assert(d.Connections[i].Src == e.Src.AbsID() && d.Connections[i].Dst == e.Dst.AbsID(), "a connection carries its endpoints' IDs")
		nd.Assert(d.Connections[i].ID == e.AbsID(), "a connection carries its ID")
	}
	var s *d2target.Shape
	for i := range d.Shapes {
		if strings.HasSuffix(d.Shapes[i].ID, "x") {
			s = &d.Shapes[i]
		}
	}
	nd.Assert(s != nil, "the styled shape is exported")
	if sFill {
		nd.Assert(s.Fill == fill, "the user's fill is exported unchanged")
	}
	if sStroke {
		nd.Assert(s.Stroke == stroke, "the user's stroke is exported unchanged")
	}
	if sFC {
		nd.Assert(s.Color == fc, "the user's font-color is exported unchanged")
	}
	if sSW {
		nd.Assert(strconv.Itoa(s.StrokeWidth) == sw, "the user's stroke-width is exported unchanged")
	}
	if sDash {
		nd.Assert(strconv.Itoa(int(s.StrokeDash)) == dash, "the user's stroke-dash is exported unchanged")
	}
	if sPat {
		nd.Assert(s.FillPattern == pat, "the user's fill-pattern is exported unchanged")
	}
	if sRad {
		nd.Assert(s.BorderRadius == 7, "the user's border-radius is exported unchanged")
	}
	if sOp {
		nd.Assert(s.Opacity == 0.4, "the user's opacity is exported unchanged")
	}
	if sDB {
		nd.Assert(!s.DoubleBorder, "the user's double-border is exported unchanged")
	}
	if sBold {
		nd.Assert(!s.Bold, "the user's bold is exported unchanged")
	}
	c := &d.Connections[0]
	if sStroke {
		nd.Assert(c.Stroke == stroke, "the user's connection stroke is exported unchanged")
	}
	if sSW {
		nd.Assert(strconv.Itoa(c.StrokeWidth) == sw, "the user's connection stroke-width is exported unchanged")
	}
	if sDash {
		nd.Assert(strconv.Itoa(int(c.StrokeDash)) == dash, "the user's connection stroke-dash is exported unchanged")
	}
	if sFC {
		nd.Assert(c.Color == fc, "the user's connection font-color is exported unchanged")
	}
	if sOp {
		nd.Assert(c.Opacity == 0.4, "the user's connection opacity is exported unchanged")
	}
}
