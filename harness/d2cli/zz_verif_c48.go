package d2cli

import (
	"context"
	"errors"
	"io/fs"
	"os"
	"strings"
	"time"

	"github.com/playwright-community/playwright-go"
	"oss.terrastruct.com/util-go/xmain"
	"oss.terrastruct.com/util-go/xos"

	"oss.terrastruct.com/d2/d2graph"
	"oss.terrastruct.com/d2/d2plugin"
	"oss.terrastruct.com/d2/d2renderers/d2ascii"
	"oss.terrastruct.com/d2/d2renderers/d2svg"
	"oss.terrastruct.com/d2/d2target"
	nd "oss.terrastruct.com/d2/internal/verifnd"
	"oss.terrastruct.com/d2/lib/simplelog"
	"oss.terrastruct.com/d2/lib/textmeasure"
)

// ---- file-system model (engine only). The engine executes these functions
// in place of the named os functions; every modelled system call is one step,
// and the process is killed before step number crashAt (the path ends with a
// panic the harness recovers). A write is modelled as three observable states
// (file truncated/created empty, first half of the data, all data), which is
// what a reader of the file can see of write(2) in progress; rename is atomic.

type c48Model struct {
	files   map[string]string
	modes   map[string]fs.FileMode
	open    map[*os.File]string
	step    int
	crashAt int
	tmp     int
}

type c48Crash struct{}

var c48 *c48Model

func c48Step() {
	c48.step++
	if c48.step == c48.crashAt {
		panic(c48Crash{})
	}
}

func c48Write(name string, data []byte, appendTo bool) {
	prev := ""
	if appendTo {
		prev = c48.files[name]
	}
	c48Step()
	c48.files[name] = prev + string(data[:len(data)/2])
	c48Step()
	c48.files[name] = prev + string(data)
}

func VerifStubWriteFile(name string, data []byte, perm os.FileMode) error {
	c48Step()
	if _, ok := c48.files[name]; !ok {
		c48.modes[name] = perm
	}
	c48.files[name] = "" // open(O_WRONLY|O_CREATE|O_TRUNC)
	c48Write(name, data, false)
	c48Step() // close
	return nil
}

func VerifStubCreateTemp(dir, pattern string) (*os.File, error) {
	c48Step()
	c48.tmp++
	name := dir + "/" + pattern + "tmp" + string(rune('0'+c48.tmp))
	c48.files[name] = ""
	c48.modes[name] = 0o600
	f := &os.File{}
	c48.open[f] = name
	return f, nil
}

func VerifStubFileWrite(f *os.File, p []byte) (int, error) {
	c48Write(c48.open[f], p, true)
	return len(p), nil
}

func VerifStubFileClose(f *os.File) error { c48Step(); return nil }
func VerifStubFileName(f *os.File) string { return c48.open[f] }

func VerifStubRename(oldpath, newpath string) error {
	c48Step()
	c48.files[newpath] = c48.files[oldpath]
	c48.modes[newpath] = c48.modes[oldpath]
	delete(c48.files, oldpath)
	return nil
}

func VerifStubRemove(name string) error { c48Step(); delete(c48.files, name); return nil }

func VerifStubChmod(name string, mode os.FileMode) error {
	c48Step()
	c48.modes[name] = mode
	return nil
}

func VerifStubReadFile(name string) ([]byte, error) {
	s, ok := c48.files[name]
	if !ok {
		return nil, fs.ErrNotExist
	}
	return []byte(s), nil
}

type c48Info struct {
	name string
	mode fs.FileMode
}

func (i c48Info) Name() string       { return i.name }
func (i c48Info) Size() int64        { return 0 }
func (i c48Info) Mode() fs.FileMode  { return i.mode }
func (i c48Info) ModTime() time.Time { return time.Time{} }
func (i c48Info) IsDir() bool        { return false }
func (i c48Info) Sys() any           { return nil }

func VerifStubStat(name string) (os.FileInfo, error) {
	if _, ok := c48.files[name]; !ok {
		return nil, errors.New("stat: no such file")
	}
	return c48Info{name, c48.modes[name]}, nil
}

// c48Run runs f under the model with the process killed before step K
// (K = 0: not killed) and returns whether it was killed.
func c48Run(K int, f func()) (crashed bool) {
	c48.crashAt = K
	defer func() {
		if r := recover(); r != nil {
			if _, ok := r.(c48Crash); ok {
				crashed = true
				return
			}
			panic(r)
		}
	}()
	f()
	return false
}

func c48New(files map[string]string) {
	c48 = &c48Model{files: files, modes: map[string]fs.FileMode{}, open: map[*os.File]string{}}
	for k := range files {
		c48.modes[k] = 0o644
	}
}

// VerifC48Render: d2cli.Write (used for every rendered board) leaves the
// output file with its complete old or complete new content wherever the
// process is killed.
func VerifC48Render() {
	old := nd.From("old", nd.Choose("oldlen", 0, 2), "ab")
	out := nd.From("new", nd.Choose("newlen", 1, 4), "xy")
	exists := nd.Bool("exists")
	files := map[string]string{}
	if exists {
		files["/w/out.svg"] = old
	}
	c48New(files)
	K := nd.Choose("K", 0, nd.Param("KMAX", 12))
	var err error
	crashed := c48Run(K, func() { err = Write(&xmain.State{}, "/w/out.svg", []byte(out)) })
	got, ok := c48.files["/w/out.svg"]
	if crashed {
		nd.Cover("killed")
		if exists {
			nd.Assert(ok && (got == old || got == out), "after a kill the output file holds its complete previous or complete new content")
		} else {
			nd.Assert(!ok || got == out, "after a kill a new output file is absent or complete")
		}
	} else {
		nd.Cover("finished")
		nd.Assert(err == nil && ok && got == out, "an uninterrupted write leaves the new content")
	}
}

// VerifC48Fmt: `d2 fmt f.d2` leaves f.d2 with its complete previous or its
// complete formatted content wherever the process is killed.
func VerifC48Fmt() {
	src := []string{"a ->   b\n", "x:   {y}\n", "a;b\n"}[nd.Choose("src", 0, 2)]
	c48New(map[string]string{"/w/f.d2": src})
	ms := &xmain.State{Name: "d2", PWD: "/w"}
	ms.Opts = xmain.NewOpts(nil, nil)
	nd.Assert(ms.Opts.Flags.Parse([]string{"fmt", "f.d2"}) == nil, "arguments parse")
	K := nd.Choose("K", 0, nd.Param("KMAX", 12))
	var err error
	crashed := c48Run(K, func() { err = fmtCmd(context.Background(), ms, false) })
	got, ok := c48.files["/w/f.d2"]
	nd.Assert(ok, "the source file still exists")
	if crashed {
		nd.Cover("killed")
		nd.Assert(got == src || (got != "" && !strings.Contains(got, "  ") && strings.HasSuffix(got, "\n") && len(got) >= len(src)-3), "after a kill the source file holds its complete previous or complete formatted content")
	} else {
		nd.Cover("finished")
		nd.Assert(err == nil, "fmt succeeds")
		c48.crashAt = 0
		want := got
		// an uninterrupted second run leaves the file unchanged: got is the formatted text
		c48New(map[string]string{"/w/f.d2": src})
		_ = c48Run(0, func() { err = fmtCmd(context.Background(), ms2(), false) })
		nd.Assert(c48.files["/w/f.d2"] == want, "fmt is deterministic")
	}
}

func ms2() *xmain.State {
	ms := &xmain.State{Name: "d2", PWD: "/w"}
	ms.Opts = xmain.NewOpts(nil, nil)
	_ = ms.Opts.Flags.Parse([]string{"fmt", "f.d2"})
	return ms
}

// VerifStubNop replaces initialisation that only sets up logging to os.Stderr.
func VerifStubNop() {}

// ---- the single-board render path (_render) around Write: the renderers, the
// image bundler, the browser and the plugin are stand-ins that return the
// bytes to write; every file-system call _render itself makes goes through
// the model, so a step that touches the output file before the atomic write
// is a step the process can be killed after.

var c48Out string

type c48Plugin struct{}

func (c48Plugin) Info(context.Context) (*d2plugin.PluginInfo, error) {
	return &d2plugin.PluginInfo{Name: "stub"}, nil
}
func (c48Plugin) Flags(context.Context) ([]d2plugin.PluginSpecificFlag, error) { return nil, nil }
func (c48Plugin) HydrateOpts([]byte) error                                     { return nil }
func (c48Plugin) Layout(context.Context, *d2graph.Graph) error                 { return nil }
func (c48Plugin) PostProcess(ctx context.Context, in []byte) ([]byte, error)   { return in, nil }

func VerifStubSVGRender(diagram *d2target.Diagram, opts *d2svg.RenderOpts) ([]byte, error) {
	return []byte(c48Out), nil
}
func VerifStubASCIIRender(a *d2ascii.ASCIIartist, ctx context.Context, diagram *d2target.Diagram, opts *d2ascii.RenderOpts) ([]byte, error) {
	return []byte(c48Out), nil
}
func VerifStubBundleLocal(ctx context.Context, l simplelog.Logger, inputPath string, in []byte, cacheImages bool) ([]byte, error) {
	return in, nil
}
func VerifStubBundleRemote(ctx context.Context, l simplelog.Logger, in []byte, cacheImages bool) ([]byte, error) {
	return in, nil
}
func VerifStubAppend(diagram *d2target.Diagram, renderOpts *d2svg.RenderOpts, ruler *textmeasure.Ruler, in []byte) []byte {
	return in
}
func VerifStubConvertSVG(ms *xmain.State, browser playwright.Browser, svg []byte, animIntervalMs int) ([][]byte, error) {
	return [][]byte{svg}, nil
}
func VerifStubAddExif(png []byte) ([]byte, error) { return png, nil }

func VerifStubMkdirAll(path string, perm os.FileMode) error { c48Step(); return nil }

func VerifStubOpenFile(name string, flag int, perm os.FileMode) (*os.File, error) {
	c48Step()
	_, ok := c48.files[name]
	if !ok {
		if flag&os.O_CREATE == 0 {
			return nil, fs.ErrNotExist
		}
		c48.files[name] = ""
		c48.modes[name] = perm
	} else if flag&os.O_TRUNC != 0 {
		c48.files[name] = ""
	}
	f := &os.File{}
	c48.open[f] = name
	return f, nil
}

func VerifStubCreate(name string) (*os.File, error) {
	return VerifStubOpenFile(name, os.O_RDWR|os.O_CREATE|os.O_TRUNC, 0o666)
}

func VerifStubTruncate(name string, size int64) error {
	c48Step()
	if s, ok := c48.files[name]; ok && int(size) < len(s) {
		c48.files[name] = s[:size]
	}
	return nil
}

// VerifC48RenderSingle: the whole single-board render path (_render for svg,
// txt and png output), not only Write, leaves the output file with its
// complete previous or complete new content wherever the process is killed.
func VerifC48RenderSingle() {
	old := nd.From("old", nd.Choose("oldlen", 0, 2), "ab")
	c48Out = nd.From("new", nd.Choose("newlen", 1, 3), "x\n")
	exists := nd.Bool("exists")
	files := map[string]string{}
	if exists {
		files["/w/out/o.svg"] = old
	}
	c48New(files)
	format := []exportExtension{SVG, TXT, PNG}[nd.Choose("format", 0, 2)]
	want := c48Out
	if format == SVG && want[len(want)-1] != '\n' {
		want += "\n"
	}
	ms := &xmain.State{Name: "d2", PWD: "/w", Env: xos.NewEnv(nil)}
	K := nd.Choose("K", 0, nd.Param("KMAX", 12))
	var err error
	crashed := c48Run(K, func() {
		_, err = _render(context.Background(), ms, c48Plugin{}, d2svg.RenderOpts{}, "/w/in.d2", "/w/out/o.svg", false, false, nil, nil, &d2target.Diagram{}, format, "extended")
	})
	got, ok := c48.files["/w/out/o.svg"]
	if crashed {
		nd.Cover("killed")
		if exists {
			nd.Assert(ok && (got == old || got == want), "after a kill the output file holds its complete previous or complete new content")
		} else {
			nd.Assert(!ok || got == want, "after a kill a new output file is absent or complete")
		}
	} else {
		nd.Cover("finished")
		nd.Assert(err == nil && ok && got == want, "an uninterrupted render leaves the new content")
	}
}
