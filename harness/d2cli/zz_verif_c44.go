package d2cli

import (
	"context"
	"io/fs"
	"log"
	"net"
	"net/http"
	"strconv"

	"github.com/coder/websocket"
	"github.com/playwright-community/playwright-go"
	"oss.terrastruct.com/util-go/cmdlog"
	"oss.terrastruct.com/util-go/xmain"
	"oss.terrastruct.com/util-go/xos"

	"oss.terrastruct.com/d2/d2plugin"
	"oss.terrastruct.com/d2/d2renderers/d2fonts"
	"oss.terrastruct.com/d2/d2renderers/d2svg"
	nd "oss.terrastruct.com/d2/internal/verifnd"
)

// ---- environment of the watch server (engine only): the compiler, the
// websocket library, the browser and the log are replaced by stand-ins; the
// watcher's own goroutines, channels, locks and wait groups are the real code,
// run under the engine's scheduler.

var (
	c44Content   int                       // version of the input file's content
	c44Compiled  []int                     // versions seen by successive compiles
	c44Delivered map[*websocket.Conn][]int // versions written to each client
	c44Accepted  []*websocket.Conn
	c44Closed    map[*websocket.Conn]int
	// set by the shutdown harness the moment watcher.close() has returned
	c45CloseReturned bool
	// compiles and log lines are scheduling points that do not use up the
	// preemption budget (the coalescing harness; the shutdown harness relies
	// on budgeted preemptions at the synchronisation operations instead)
	c44SlowIO bool
)

func VerifStubCompile(ctx context.Context, ms *xmain.State, plugins []d2plugin.Plugin, fs fs.FS, layout *string, renderOpts d2svg.RenderOpts, fontFamily *d2fonts.FontFamily, monoFontFamily *d2fonts.FontFamily, animateInterval int64, inputPath, outputPath string, boardPath []string, noChildren, bundle, forceAppendix bool, browser playwright.Browser, ext exportExtension, asciiMode string) (_ []byte, written bool, _ error) {
	v := c44Content // the compiler reads the file as it is now
	if c44SlowIO {
		nd.Yield() // and takes its time: anything may happen meanwhile
	}
	c44Compiled = append(c44Compiled, v)
	return []byte(strconv.Itoa(v)), true, nil
}

func VerifStubReplaceWatchList(w *watcher, ctx context.Context, paths []string) error { return nil }

func VerifStubBrowserOpen(ctx context.Context, env *xos.Env, url string) error { return nil }

func VerifStubAccept(w http.ResponseWriter, r *http.Request, opts *websocket.AcceptOptions) (*websocket.Conn, error) {
	if c44SlowIO {
		nd.Yield() // the upgrade is network I/O: anything may run meanwhile
	}
	nd.Assert(!c45CloseReturned, "a connection was upgraded after close had returned")
	c := &websocket.Conn{}
	c44Accepted = append(c44Accepted, c)
	return c, nil
}

func VerifStubConnClose(c *websocket.Conn, code websocket.StatusCode, reason string) error {
	nd.Assert(!c45CloseReturned, "a client handler was still running after close had returned")
	c44Closed[c]++
	return nil
}

func VerifStubCloseRead(c *websocket.Conn, ctx context.Context) context.Context { return ctx }

func VerifStubHeartbeat(ctx context.Context, c *websocket.Conn) {}

func VerifStubWSWrite(ctx context.Context, c *websocket.Conn, v interface{}) error {
	res := v.(*compileResult)
	n, _ := strconv.Atoi(res.SVG)
	c44Delivered[c] = append(c44Delivered[c], n)
	return nil
}

// writing a log line is I/O: other goroutines may run meanwhile
func VerifStubLogPrintf(l *log.Logger, format string, v ...any) {
	if c44SlowIO {
		nd.Yield()
	}
}
func VerifStubLogPrint(l *log.Logger, v ...any) {
	if c44SlowIO {
		nd.Yield()
	}
}

type c44Addr struct{}

func (c44Addr) Network() string { return "tcp" }
func (c44Addr) String() string  { return "127.0.0.1:0" }

type c44Listener struct{ closed bool }

func (l *c44Listener) Accept() (net.Conn, error) { return nil, net.ErrClosed }
func (l *c44Listener) Close() error              { l.closed = true; return nil }
func (l *c44Listener) Addr() net.Addr            { return c44Addr{} }

func c44Watcher() *watcher {
	c44Content, c44Compiled, c44Accepted = 0, nil, nil
	c45CloseReturned = false
	c44Delivered = map[*websocket.Conn][]int{}
	c44Closed = map[*websocket.Conn]int{}
	ctx, cancel := context.WithCancel(context.Background())
	w := &watcher{
		ctx:       ctx,
		cancel:    cancel,
		ms:        &xmain.State{Log: &cmdlog.Logger{}},
		compileCh: make(chan struct{}, 1),
		wsclients: make(map[*wsclient]struct{}),
		l:         &c44Listener{},
	}
	w.inputPath, w.outputPath = "in.d2", "out.svg"
	return w
}

// VerifC44Watch: compile requests are coalesced but never lost: once the input
// stops changing the last compile used the latest content, every connected
// client has received that result, and no client receives an older result
// after a newer one — for every schedule of the file-change events, the
// compile loop and the clients' write loops.
func VerifC44Watch() {
	w := c44Watcher()
	c44SlowIO = true
	clients := nd.Choose("clients", 1, nd.Param("CLIENTS", 2))
	changes := nd.Choose("changes", 1, nd.Param("CHANGES", 2))
	w.goFunc(w.compileLoop)
	for i := 0; i < clients; i++ {
		nd.Assert(w.handleWatch(nil, nil) == nil, "a client is admitted while the server runs")
	}
	// the file watcher's part: the content changes, a compile is requested
	for i := 0; i < changes; i++ {
		c44Content++
		w.requestCompile()
		nd.Yield() // time passes between two changes of the file
	}
	nd.Quiesce()
	nd.Cover("quiescent")
	nd.Assert(len(c44Compiled) > 0 && c44Compiled[len(c44Compiled)-1] == c44Content, "the last compile used the latest content")
	nd.Assert(w.getRes() != nil && w.getRes().SVG == strconv.Itoa(c44Content), "the latest result is the one kept for new clients")
	nd.Assert(len(c44Accepted) == clients, "every client was accepted")
	for _, c := range c44Accepted {
		d := c44Delivered[c]
		nd.Assert(len(d) > 0 && d[len(d)-1] == c44Content, "every connected client has received the latest result")
		for j := 1; j < len(d); j++ {
			nd.Assert(d[j] >= d[j-1], "a client never receives an older result after a newer one")
		}
	}
}

// VerifC45Shutdown: close returns only after every client handler has
// finished, no client is admitted once shutdown has begun, and no
// interleaving of connections and shutdown crashes or leaks a handler.
func VerifC45Shutdown() { c45Shutdown() }

// VerifC45ShutdownClients is the same scenario family explored under another
// bound (more clients, no budgeted preemptions).
func VerifC45ShutdownClients() { c45Shutdown() }

func c45Shutdown() {
	w := c44Watcher()
	c44SlowIO = nd.Param("SLOWIO", 0) > 0
	before := nd.Choose("before", 0, nd.Param("CLIENTS", 2))
	w.goFunc(w.compileLoop)
	for i := 0; i < before; i++ {
		nd.Assert(w.handleWatch(nil, nil) == nil, "a client is admitted while the server runs")
	}
	if nd.Bool("change") {
		c44Content++
		w.requestCompile()
	}
	// a client connecting while the server shuts down
	lateDone := make(chan error, 1)
	late := nd.Bool("late")
	if late {
		started := make(chan struct{})
		go func() { close(started); lateDone <- w.handleWatch(nil, nil) }()
		if nd.Bool("late_first") {
			// the connection attempt is already under way when shutdown starts
			<-started
		}
	}
	w.close()
	c45CloseReturned = true
	nd.Cover("closed")
	// when close has returned every accepted connection's handler has ended (it closes its connection on the way out)
	for _, c := range c44Accepted {
		nd.Assert(c44Closed[c] > 0, "close returned while a client handler was still running")
	}
	nd.Assert(len(w.wsclients) == 0, "close returned while a client was still registered")
	// nobody is admitted after shutdown has begun
	nd.Assert(w.handleWatch(nil, nil) != nil, "a client was admitted after shutdown")
	nd.Assert(len(c44Accepted) <= before+1, "a connection was accepted after shutdown")
	if late {
		nd.Quiesce()
		select {
		case err := <-lateDone:
			if err == nil {
				// admitted: then close must have waited for it
				nd.Assert(c44Closed[c44Accepted[len(c44Accepted)-1]] > 0, "a client admitted during shutdown was not waited for")
			}
		default:
			nd.Fail("a connection attempt during shutdown never returned")
		}
	}
	w.wg.Wait()
	nd.Cover("loops-ended")
}
