package d2cli

import (
	"context"
	"path/filepath"
	"strings"
	"time"

	"github.com/playwright-community/playwright-go"
	"oss.terrastruct.com/util-go/xmain"

	"oss.terrastruct.com/d2/d2plugin"
	"oss.terrastruct.com/d2/d2renderers/d2svg"
	"oss.terrastruct.com/d2/d2target"
	nd "oss.terrastruct.com/d2/internal/verifnd"
	"oss.terrastruct.com/d2/lib/textmeasure"
)

// ---- recording stand-ins (engine only) for what render does to the world:
// _render (layout-independent drawing + Write of one board), os.RemoveAll, the clock.

var c34Written, c34Removed []string

func VerifStubRenderOne(ctx context.Context, ms *xmain.State, plugin d2plugin.Plugin, opts d2svg.RenderOpts, inputPath, outputPath string, bundle, forceAppendix bool, browser playwright.Browser, ruler *textmeasure.Ruler, diagram *d2target.Diagram, outputFormat exportExtension, asciiMode string) ([]byte, error) {
	c34Written = append(c34Written, outputPath)
	return []byte("<svg/>"), nil
}

func VerifStubRemoveAll(path string) error {
	c34Removed = append(c34Removed, path)
	return nil
}

func VerifStubNow() time.Time                  { return time.Time{} }
func VerifStubSince(t time.Time) time.Duration { return 0 }

func c34Board(tag string) *d2target.Diagram {
	if nd.Bool(tag + "word") {
		words := []string{"index", "layers", "scenarios", "steps", "x", "x.svg", "a/index"}
		return &d2target.Diagram{Name: words[nd.Choose(tag+"w", 0, len(words)-1)]}
	}
	n := nd.Choose(tag+"len", 1, nd.Param("NB", 2))
	return &d2target.Diagram{Name: nd.From(tag, n, "a./-")}
}

// c34Inside: p lies inside directory dir (after cleaning).
func c34Inside(p, dir string) bool {
	p, dir = filepath.Clean(p), filepath.Clean(dir)
	return strings.HasPrefix(p, dir+"/")
}

// VerifC34Paths: every board of a multi-board diagram is written to a
// distinct file inside the directory derived from the output path; nothing
// outside is written or removed, whatever the board names are.
func VerifC34Paths() {
	root := &d2target.Diagram{}
	l1 := c34Board("l")
	root.Layers = append(root.Layers, l1)
	switch nd.Choose("tree", 0, 2) {
	case 0: // one layer
	case 1: // a nested layer below the first one
		l1.Layers = append(l1.Layers, c34Board("m"))
	case 2: // a layer and a scenario
		root.Scenarios = append(root.Scenarios, c34Board("s"))
	}
	if nd.Known("C34-board-named-index") {
		// recorded finding: a board without children named "index" is written to the file
		// of its parent board (<dir>/index.svg)
		for _, d := range append(append([]*d2target.Diagram{l1}, l1.Layers...), root.Scenarios...) {
			nd.Assume(d.Name != "index")
		}
	}
	c34Written, c34Removed = nil, nil
	_, err := render(context.Background(), nil, 0, nil, d2svg.RenderOpts{MasterID: "m"}, "in.d2", "out/x.svg", false, false, nil, nil, root, SVG, "")
	nd.Assert(err == nil, "rendering succeeds")
	nd.Cover("rendered")
	boards := 1 + 1 + len(l1.Layers) + len(root.Scenarios)
	nd.Assert(len(c34Written) == boards, "one file is written per board")
	for i, p := range c34Written {
		nd.Assert(c34Inside(p, "out/x"), "a board is written outside the directory derived from the output path")
		for j := 0; j < i; j++ {
			nd.Assert(filepath.Clean(c34Written[j]) != filepath.Clean(p), "two boards are written to the same file")
		}
	}
	for _, p := range c34Removed {
		nd.Assert(filepath.Clean(p) == "out/x" || c34Inside(p, "out/x"), "something outside the output location is deleted")
	}
	// resolveLinks agrees with render on where each board goes
	m, err := resolveLinks("root", "out/x.svg", root)
	nd.Assert(err == nil && len(m) == boards, "every board has a link target")
	for _, v := range m {
		found := false
		for _, p := range c34Written {
			if p == v {
				found = true
			}
		}
		nd.Assert(found, "links are rewritten to files that are actually written")
	}
}
