package d2cli

import (
	"context"
	"path/filepath"
	"strings"
	"time"

	"github.com/playwright-community/playwright-go"
	"oss.terrastruct.com/util-go/xmain"

	"oss.terrastruct.com/d2/d2plugin"
	"oss.terrastruct.com/d2/d2renderers/d2svg"
	"oss.terrastruct.com/d2/d2target"
	nd "oss.terrastruct.com/d2/internal/verifnd"
	"oss.terrastruct.com/d2/lib/textmeasure"
)

// ---- recording stand-ins (engine only) for what render does to the world:
// _render (layout-independent drawing + Write of one board), os.RemoveAll, the clock.

var c34Written, c34Removed []string
var c34WrittenFor map[*d2target.Diagram]string

func VerifStubRenderOne(ctx context.Context, ms *xmain.State, plugin d2plugin.Plugin, opts d2svg.RenderOpts, inputPath, outputPath string, bundle, forceAppendix bool, browser playwright.Browser, ruler *textmeasure.Ruler, diagram *d2target.Diagram, outputFormat exportExtension, asciiMode string) ([]byte, error) {
	c34Written = append(c34Written, outputPath)
	if c34WrittenFor != nil {
		c34WrittenFor[diagram] = outputPath
	}
	return []byte("<svg/>"), nil
}

func VerifStubRemoveAll(path string) error {
	c34Removed = append(c34Removed, path)
	return nil
}

func VerifStubNow() time.Time                  { return time.Time{} }
func VerifStubSince(t time.Time) time.Duration { return 0 }

func c34Board(tag string) *d2target.Diagram {
	if nd.Bool(tag + "word") {
		words := []string{"index", "layers", "scenarios", "steps", "x", "x.svg", "a/index"}
		return &d2target.Diagram{Name: words[nd.Choose(tag+"w", 0, len(words)-1)]}
	}
	n := nd.Choose(tag+"len", 1, nd.Param("NB", 2))
	return &d2target.Diagram{Name: nd.From(tag, n, "a./-")}
}

// c34Inside: p lies inside directory dir (after cleaning).
func c34Inside(p, dir string) bool {
	p, dir = filepath.Clean(p), filepath.Clean(dir)
	return strings.HasPrefix(p, dir+"/")
}

// VerifC34Paths: every board of a multi-board diagram is written to a
// distinct file inside the directory derived from the output path; nothing
// outside is written or removed, whatever the board names are; and the file
// resolveLinks names for a board (the target links are rewritten to, C35) is
// the file render writes that board to, for every combination of board kinds.
func VerifC34Paths() { c34Paths(false) }

// VerifC35Files: the same harness registered for the link-rewriting clause of C35.
func VerifC35Files() { c34Paths(true) }

func c34Paths(linksOnly bool) {
	root := &d2target.Diagram{}
	var all []*d2target.Diagram
	keys := map[*d2target.Diagram]string{root: "root"}
	add := func(parent *d2target.Diagram, kind string, tag string) *d2target.Diagram {
		d := c34Board(tag)
		switch kind {
		case "layers":
			parent.Layers = append(parent.Layers, d)
		case "scenarios":
			parent.Scenarios = append(parent.Scenarios, d)
		case "steps":
			parent.Steps = append(parent.Steps, d)
		}
		keys[d] = keys[parent] + "." + kind + "." + d.Name
		all = append(all, d)
		return d
	}
	switch nd.Choose("tree", 0, nd.Param("TREES", 8)-1) {
	case 0: // one layer
		add(root, "layers", "l")
	case 1: // a nested layer below the first one
		add(add(root, "layers", "l"), "layers", "m")
	case 2: // a layer and a scenario
		add(root, "layers", "l")
		add(root, "scenarios", "s")
	case 3: // steps only
		add(root, "steps", "l")
		add(root, "steps", "s")
	case 4: // a layer whose only children are steps
		add(add(root, "layers", "l"), "steps", "m")
	case 5: // scenarios and steps, no layers
		add(root, "scenarios", "l")
		add(root, "steps", "s")
	case 6: // a step with a scenario below
		add(add(root, "steps", "l"), "scenarios", "m")
	case 7: // all three kinds
		add(root, "layers", "l")
		add(root, "scenarios", "s")
		add(root, "steps", "m")
	}
	// sibling boards of one kind have different names (they are keys of one map, compared without case)
	for i, d := range all {
		for _, e := range all[:i] {
			if keys[d][:len(keys[d])-len(d.Name)] == keys[e][:len(keys[e])-len(e.Name)] {
				nd.Assume(!strings.EqualFold(d.Name, e.Name))
			}
		}
	}
	if linksOnly || nd.Known("C34-board-named-index") {
		// recorded finding: a board without children named "index" is written to the file
		// of its parent board (<dir>/index.svg)
		for _, d := range all {
			nd.Assume(d.Name != "index")
		}
	}
	c34Written, c34Removed, c34WrittenFor = nil, nil, map[*d2target.Diagram]string{}
	_, err := render(context.Background(), nil, 0, nil, d2svg.RenderOpts{MasterID: "m"}, "in.d2", "out/x.svg", false, false, nil, nil, root, SVG, "")
	nd.Assert(err == nil, "rendering succeeds")
	nd.Cover("rendered")
	boards := 1 + len(all)
	nd.Assert(len(c34Written) == boards, "one file is written per board")
	for i, p := range c34Written {
		if linksOnly {
			break // where the files go is C34's subject
		}
		nd.Assert(c34Inside(p, "out/x"), "a board is written outside the directory derived from the output path")
		for j := 0; j < i; j++ {
			nd.Assert(filepath.Clean(c34Written[j]) != filepath.Clean(p), "two boards are written to the same file")
		}
	}
	for _, p := range c34Removed {
		if linksOnly {
			break
		}
		nd.Assert(filepath.Clean(p) == "out/x" || c34Inside(p, "out/x"), "something outside the output location is deleted")
	}
	// resolveLinks agrees with render on where each board goes
	m, err := resolveLinks("root", "out/x.svg", root)
	nd.Assert(err == nil, "every board has a link target")
	distinct := true
	for i, d := range all {
		for _, e := range all[:i] {
			if keys[d] == keys[e] {
				distinct = false
			}
		}
	}
	if distinct {
		nd.Assert(len(m) == boards, "every board has exactly one link target")
		for _, d := range append([]*d2target.Diagram{root}, all...) {
			nd.Assert(m[keys[d]] == c34WrittenFor[d], "a link to a board is rewritten to a file other than the one the board is written to")
		}
	}
	for _, v := range m {
		found := false
		for _, p := range c34Written {
			if p == v {
				found = true
			}
		}
		nd.Assert(found, "links are rewritten to files that are actually written")
	}
}
