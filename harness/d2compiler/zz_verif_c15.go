package d2compiler

import (
	"strconv"
	"strings"

	"oss.terrastruct.com/d2/d2graph"
	nd "oss.terrastruct.com/d2/internal/verifnd"
)

// c15Stmts draws k statements (add, relabel, delete, connect, restyle) over
// the names a, b (symbolic case) used as board content.
func c15Stmts(tag string, k int) string {
	var sb strings.Builder
	for i := 0; i < k; i++ {
		n := nd.From(tag+"n"+strconv.Itoa(i), 1, "abA")
		switch nd.Choose(tag+"k"+strconv.Itoa(i), 0, 6) {
		case 0:
			sb.WriteString(n + "\n")
		case 1:
			sb.WriteString(n + ": " + tag + strconv.Itoa(i) + "\n")
		case 2:
			sb.WriteString(n + ": null\n")
		case 3:
			sb.WriteString(n + " -> c\n")
		case 4:
			sb.WriteString(n + ".shape: circle\n")
		case 5:
			sb.WriteString("*.style.opacity: 0.4\n")
		case 6:
			sb.WriteString("(* -> *)[*].style.stroke-width: 4\n")
		}
	}
	return sb.String()
}

func c15Body(g *d2graph.Graph) string {
	var b strings.Builder
	for _, o := range g.Objects {
		vObj(&b, o)
	}
	for _, e := range g.Edges {
		vEdge(&b, e)
	}
	return b.String()
}

func c15Compile(text string) *d2graph.Graph {
	g, _, err := Compile("index.d2", strings.NewReader(text), nil)
	if err != nil {
		return nil
	}
	return g
}

func c15Indent(s string) string {
	return "  " + strings.ReplaceAll(strings.TrimSuffix(s, "\n"), "\n", "\n  ") + "\n"
}

// VerifC15Boards: a scenario shows the base as declared before it plus its own
// changes, a step additionally everything of the previous step, a layer starts
// empty; and no board changes its base or its siblings.
func VerifC15Boards() {
	pre := "a: PA\nb: PB\na -> b: PE\n" + c15Stmts("p", 1)
	s1 := c15Stmts("s", 1)
	s2 := "b: T\n"
	if nd.Param("S2", 0) > 0 {
		s2 = c15Stmts("t", 1)
	} else if nd.Bool("same") {
		s2 = s1 // sibling boards making the same change
	}
	post := "e\n"
	kind := []string{"scenarios", "steps", "layers"}[nd.Choose("kind", 0, 2)]
	text := pre + kind + ": {\n u: {\n" + c15Indent(c15Indent(s1)) + " }\n v: {\n" + c15Indent(c15Indent(s2)) + " }\n}\n" + post
	g := c15Compile(text)
	base := c15Compile(pre + post)
	if g == nil {
		nd.Cover("rejected")
		return
	}
	nd.Cover("compiled")
	nd.Assert(base != nil, "the base alone compiles when the whole compiles")
	nd.Assert(c15Body(g) == c15Body(base), "boards never change their base board")
	var boards []*d2graph.Graph
	var e1, e2 *d2graph.Graph
	switch kind {
	case "scenarios":
		boards = g.Scenarios
		e1, e2 = c15Compile(pre+s1), c15Compile(pre+s2)
	case "steps":
		boards = g.Steps
		e1, e2 = c15Compile(pre+s1), c15Compile(pre+s1+s2)
	case "layers":
		boards = g.Layers
		e1, e2 = c15Compile(s1), c15Compile(s2)
	}
	nd.Assert(len(boards) == 2 && boards[0].Name == "u" && boards[1].Name == "v", "both boards exist, in order")
	if e1 != nil && e2 != nil {
		nd.Cover("oracle")
		nd.Assert(c15Body(boards[0]) == c15Body(e1), "the first board has the inherited content plus its own changes")
		if kind == "steps" && (strings.HasPrefix(s1, "*") || strings.HasPrefix(s1, "(*")) && nd.Known("C15-step-glob-not-carried") {
			// recorded finding: a glob (object or connection glob) declared inside a step is not
			// applied to objects and connections that the next step creates (globs of the base are)
			return
		}
		nd.Assert(c15Body(boards[1]) == c15Body(e2), "the second board has the inherited content plus its own changes (siblings do not leak)")
	}
}
