package d2compiler

import (
	nd "oss.terrastruct.com/d2/internal/verifnd"
)

// VerifC08MapOrder: compiling the same input twice gives the same diagram or
// the same errors, for every iteration order of every Go map the compiler
// ranges over (the iteration order is a symbolic choice in the engine), and
// the compiler writes no package-level state on the way.
func VerifC08MapOrder() {
	nd.MapOrderSymbolic(true)
	var s string
	switch nd.Choose("tpl", 0, 7) {
	case 0:
		n := nd.Choose("len", 1, nd.Param("N", 3))
		s = nd.From("s", n, "aAb.-><:;{}'*")
	case 1:
		s = "classes: {k: {style.opacity: 0.4}; j: {shape: circle}}\na.class: [k; j]\nb.class: j\n"
	case 2:
		s = "vars: {x: 1; y: 2; z: {w: 3}}\na: ${x} ${y} ${z.w}\nb: {...${z}}\n"
	case 3:
		s = "a\nb\nlayers: {l1: {c}; l2: {d}}\nscenarios: {s1: {e}; s2: {f}}\nsteps: {t1: {g}; t2: {h}}\n"
	case 4:
		s = "*.style.fill: red\n**.shape: circle\na.b.c\nd -> e\n(* -> *)[*].label: z\n"
	case 5:
		s = "a: {shape: sql_table; x: int {constraint: primary_key}; y: string}\nb: {shape: class; +f: int; -g(): void}\n"
	case 6:
		s = "a.link: layers.l1\nb.link: layers.l2\nlayers: {l1: {c.link: _}; l2: {d.link: _.layers.l1}}\n"
	case 7:
		s = "a: {near: top-center}\nb.near: a\nx: {grid-rows: 2; grid-columns: 2; p; q; r; s}\n"
	}
	p1, ok1 := vCompile(s, nil)
	p2, ok2 := vCompile(s, nil)
	nd.Cover("compiled")
	nd.Assert(ok1 == ok2, "the same input is accepted or rejected every time")
	nd.Assert(p1 == p2, "the same input gives the same diagram or the same errors every time")
}
