package d2compiler

import (
	"strings"

	nd "oss.terrastruct.com/d2/internal/verifnd"
)

func c12Match(pat byte, kind int, name string) bool {
	lower := func(c byte) byte {
		if c >= 'A' && c <= 'Z' {
			return c + 32
		}
		return c
	}
	switch kind {
	case 0: // *
		return true
	case 1: // X*
		return lower(name[0]) == lower(pat)
	default: // *X*
		for i := 0; i < len(name); i++ {
			if lower(name[i]) == lower(pat) {
				return true
			}
		}
		return false
	}
}

// VerifC12Programs: a glob declaration acts like declaring its body on every
// matching object, on earlier and on later ones, and values follow source
// order. Oracle: the same program with the glob expanded by a reference
// matcher at the right places, compiled by the same compiler.
func VerifC12Programs() {
	n1 := nd.From("n", 2, "abAB")
	n2 := nd.From("m", 2, "abAB")
	nd.Assume(!strings.EqualFold(n1, n2))
	pc := nd.From("p", 1, "abA")[0]
	kind := nd.Choose("kind", 0, 2)
	pat := []string{"*", string(pc) + "*", "*" + string(pc) + "*"}[kind]
	m1, m2 := c12Match(pc, kind, n1), c12Match(pc, kind, n2)
	exp := func(name string, m bool, v string) string {
		if m {
			return name + ".label: " + v + "\n"
		}
		return ""
	}
	var with, without string
	switch nd.Choose("case", 0, 7) {
	case 0: // glob after both objects
		with = n1 + "\n" + n2 + "\n" + pat + ".label: G\n"
		without = n1 + "\n" + n2 + "\n" + exp(n1, m1, "G") + exp(n2, m2, "G")
	case 1: // glob before both: applies at creation
		with = pat + ".label: G\n" + n1 + "\n" + n2 + "\n"
		without = n1 + "\n" + exp(n1, m1, "G") + n2 + "\n" + exp(n2, m2, "G")
	case 2: // later explicit declaration overrides the glob value
		with = pat + ".label: G\n" + n1 + ".label: E\n" + n2 + "\n"
		without = n1 + ".label: E\n" + n2 + "\n" + exp(n2, m2, "G")
	case 3: // later glob overrides an earlier explicit value
		with = n1 + ".label: E\n" + n2 + "\n" + pat + ".label: G\n"
		without = n1 + ".label: E\n" + n2 + "\n" + exp(n1, m1, "G") + exp(n2, m2, "G")
	case 4: // nested: * matches one level only, ** every level
		with = n1 + "." + n2 + "\n" + pat + ".label: G\n"
		without = n1 + "." + n2 + "\n" + exp(n1, m1, "G")
	case 5:
		if kind != 0 {
			nd.Assume(false)
		}
		with = n1 + "." + n2 + "\n**.label: G\n"
		without = n1 + "." + n2 + "\n" + n1 + ".label: G\n" + n1 + "." + n2 + ".label: G\n"
	case 6: // the same glob written in an enclosing scope and inside a container: both apply to later targets of their scope
		if kind != 0 {
			nd.Assume(false)
		}
		with = "*.label: G\n" + n1 + ": {\n " + n2 + "\n *.label: G\n z\n y -> w\n}\nq\n"
		without = n1 + ": {\n " + n2 + "\n z\n y -> w\n}\nq\n" + n1 + ".label: G\n" + n1 + "." + n2 + ".label: G\n" + n1 + ".z.label: G\n" + n1 + ".y.label: G\n" + n1 + ".w.label: G\nq.label: G\n"
	case 7: // a glob inside a container does not reach outside, and an outer glob does not reach inside
		if kind != 0 {
			nd.Assume(false)
		}
		with = n1 + ": {\n *.label: G\n " + n2 + "\n}\nq\n*.shape: circle\n"
		without = n1 + ": {\n " + n2 + ": G\n}\nq\n" + n1 + ".shape: circle\nq.shape: circle\n"
	}
	vSame(with, without, nil, "glob expansion")
}

// VerifC12Edges: connection globs never create a connection from an object
// to itself, and never match reserved keywords.
func VerifC12Edges() {
	n1 := nd.From("n", 1, "abAB")
	n2 := nd.From("m", 1, "abcC")
	nd.Assume(!strings.EqualFold(n1, n2))
	var with, without string
	switch nd.Choose("case", 0, 2) {
	case 0:
		with = n1 + "\n" + n2 + "\n* -> *\n"
		without = n1 + "\n" + n2 + "\n" + n1 + " -> " + n2 + "\n" + n2 + " -> " + n1 + "\n"
	case 1: // reserved keywords are not matched: style/shape/label are not objects
		with = n1 + ": {shape: circle; style.opacity: 0.4}\n" + n1 + ".*.label: G\n" + n1 + "." + n2 + "\n"
		without = n1 + ": {shape: circle; style.opacity: 0.4}\n" + n1 + "." + n2 + ": G\n"
	case 2: // edge glob applies to later connections as well
		with = "(* -> *)[*].label: G\n" + n1 + " -> " + n2 + "\n"
		without = n1 + " -> " + n2 + ": G\n"
	}
	vSame(with, without, nil, "connection globs")
}
