package d2compiler

import (
	"strings"

	"oss.terrastruct.com/d2/d2graph"
	nd "oss.terrastruct.com/d2/internal/verifnd"
)

func c16rInt(v string) (int, bool) {
	i, neg := 0, false
	if len(v) > 0 && (v[0] == '+' || v[0] == '-') {
		neg = v[0] == '-'
		i = 1
	}
	if i == len(v) {
		return 0, false
	}
	n := 0
	for ; i < len(v); i++ {
		if v[i] < '0' || v[i] > '9' {
			return 0, false
		}
		n = n*10 + int(v[i]-'0')
	}
	if neg {
		n = -n
	}
	return n, true
}

// VerifC16Reserved: sizes, positions and gaps are accepted exactly for
// non-negative integers, grid rows/columns for positive integers, and the
// accepted value reaches the compiled diagram unchanged.
func VerifC16Reserved() {
	keys := []string{"width", "height", "top", "left", "grid-rows", "grid-columns", "grid-gap", "vertical-gap", "horizontal-gap"}
	ki := nd.Choose("key", 0, len(keys)-1)
	key := keys[ki]
	n := nd.Choose("len", 1, nd.Param("N", 3))
	v := nd.From("v", n, "0159-+a")
	g, _, err := Compile("index.d2", strings.NewReader("x: {\n  "+key+": \""+v+"\"\n  a\n}\n"), nil)
	x, isInt := c16rInt(v)
	min := 0
	if key == "grid-rows" || key == "grid-columns" {
		min = 1
	}
	want := isInt && x >= min
	nd.Cover("compiled")
	if want {
		nd.Cover("in-domain")
	}
	nd.Assert((err == nil) == want, "a size, position, gap or grid count is accepted exactly when it is an integer of the documented domain")
	if err != nil {
		nd.Assert(strings.Contains(err.Error(), "index.d2:2:"), "the error is positioned at the value")
		return
	}
	var obj *d2graph.Object
	for _, o := range g.Objects {
		if o.AbsID() == "x" {
			obj = o
		}
	}
	nd.Assert(obj != nil, "the object exists")
	var got *d2graph.Scalar
	switch ki {
	case 0:
		got = obj.WidthAttr
	case 1:
		got = obj.HeightAttr
	case 2:
		got = obj.Top
	case 3:
		got = obj.Left
	case 4:
		got = obj.GridRows
	case 5:
		got = obj.GridColumns
	case 6:
		got = obj.GridGap
	case 7:
		got = obj.VerticalGap
	case 8:
		got = obj.HorizontalGap
	}
	nd.Assert(got != nil && got.Value == v, "the accepted value reaches the compiled diagram unchanged")
}
