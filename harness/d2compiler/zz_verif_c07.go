package d2compiler

import (
	"strings"

	"oss.terrastruct.com/d2/d2parser"
	nd "oss.terrastruct.com/d2/internal/verifnd"
)

// VerifC07Bytes: Compile on every ASCII string of length <= N returns a graph
// or positioned errors and never panics (a panic or an exhausted instruction
// budget on any path is reported by the engine).
func VerifC07Bytes() {
	n := nd.Choose("len", 0, nd.Param("N", 2))
	s := nd.ASCII("s", n)
	g, _, err := Compile("f.d2", strings.NewReader(s), nil)
	nd.Cover("compiled")
	if err != nil {
		nd.Cover("error")
		nd.Assert(g == nil, "no graph is returned together with an error")
		pe, ok := err.(*d2parser.ParseError)
		nd.Assert(ok, "compile errors are positioned (*d2parser.ParseError)")
		nd.Assert(len(pe.Errors) > 0, "the error list is not empty")
		for _, e := range pe.Errors {
			nd.Assert(e.Range.Start.Byte >= 0 && e.Range.Start.Byte <= len(s), "error position lies inside the input")
		}
	} else {
		nd.Cover("graph")
		nd.Assert(g != nil && g.Root != nil, "a graph with a root is returned")
	}
}
