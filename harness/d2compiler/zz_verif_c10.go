package d2compiler

import (
	nd "oss.terrastruct.com/d2/internal/verifnd"
)

// c10Name draws an object name of 1..2 letters with symbolic case and a
// second spelling of the same name with independently chosen case.
func c10Name(tag string) (string, string) {
	n := nd.Choose(tag+"len", 1, nd.Param("NL", 1))
	a := nd.From(tag, n, "aAb")
	b := []byte(a)
	for i := range b {
		if nd.Bool(tag + "flip") {
			b[i] ^= 0x20
		}
	}
	return a, string(b)
}

func c10Val(tag string) string {
	n := nd.Choose(tag+"len", 1, nd.Param("NV", 1))
	v := nd.From(tag, n, "xyX1")
	return v
}

// VerifC10Override: repeated declarations merge (names compared
// case-insensitively) and the last assignment wins; null removes; a later
// declaration creates afresh. Each case is a pair of programs that must
// compile to the same diagram.
func VerifC10Override() {
	a, a2 := c10Name("n")
	b := "q"
	if nd.Bool("mcase") {
		b = "Q"
	}
	v1, v2 := "x", c10Val("w")
	attr := []string{"label", "style.opacity", "shape", "style.fill", "width", "near"}[nd.Choose("attr", 0, 1)]
	if attr == "style.opacity" {
		v1, v2 = "0.4", "0."+nd.From("op", 1, "0159")
	}
	var with, without string
	switch nd.Choose("case", 0, 16) {
	case 0: // last assignment of an attribute wins, across spellings of the name
		with = a + "." + attr + ": " + v1 + "\n" + a2 + "." + attr + ": " + v2 + "\n"
		without = a + "." + attr + ": " + v2 + "\n"
	case 1: // same inside a map, merged with a flat declaration
		with = a + ": {" + attr + ": " + v1 + "}\n" + a2 + ": {" + attr + ": " + v2 + "}\n"
		without = a + ": {" + attr + ": " + v2 + "}\n"
	case 2: // primary value (label) re-assigned
		with = a + ": " + v1 + "\n" + b + "\n" + a2 + ": " + v2 + "\n"
		without = a + ": " + v2 + "\n" + b + "\n"
	case 3: // null removes the object, its children and attached connections
		with = a + ".c\n" + a + " -> " + b + ": " + v1 + "\n" + b + " -> " + a + ".c\n" + a2 + ": null\n"
		without = b + "\n"
	case 4: // null then a later declaration creates it afresh (label is the new spelling)
		with = a + ": " + v1 + " {shape: circle}\n" + b + "\n" + a2 + ": null\n" + a2 + "\n"
		without = b + "\n" + a2 + "\n"
	case 5: // null on an attribute resets only that attribute
		with = a + "." + attr + ": " + v1 + "\n" + a + ".style.bold: true\n" + a2 + "." + attr + ": null\n"
		without = a + "\n" + a + ".style.bold: true\n"
	case 6: // null removes a connection
		with = a + " -> " + b + ": " + v1 + "\n(" + a2 + " -> " + b + ")[0]: null\n"
		without = a + "\n" + b + "\n"
	case 7: // connection label re-assigned through an indexed reference
		with = a + " -> " + b + ": " + v1 + "\n(" + a2 + " -> " + b + ")[0]: " + v2 + "\n"
		without = a + " -> " + b + ": " + v2 + "\n"
	case 8: // connection attribute: last assignment wins
		with = a + " -> " + b + ": {style.opacity: 0.4}\n(" + a + " -> " + b + ")[0].style.opacity: 0.5\n"
		without = a + " -> " + b + ": {style.opacity: 0.5}\n"
	case 9: // removing one of two parallel connections keeps the other
		with = a + " -> " + b + ": " + v1 + "\n" + a + " -> " + b + ": " + v2 + "\n(" + a + " -> " + b + ")[1]: null\n"
		without = a + " -> " + b + ": " + v1 + "\n"
	case 10: // nested object: null of the child only
		with = a + "." + b + ": " + v1 + "\n" + a + ".z\n" + a2 + "." + b + ": null\n"
		without = a + "\n" + a + ".z\n"
	case 11: // declaration order of merged objects is that of first appearance
		with = a + "\n" + b + "\n" + a2 + ": " + v1 + "\n"
		without = a + ": " + v1 + "\n" + b + "\n"
	case 12: // null on a connection inside a container, container spelled in either case
		with = a + ".k -> " + a + ".j: " + v1 + "\n(" + a2 + ".k -> " + a + ".j)[0]: null\n"
		without = a + ".k\n" + a + ".j\n"
	case 13: // null on an endpoint removes a connection written from the outer scope
		with = a + ".k -> " + a + ".j: " + v1 + "\n" + a2 + ".j: null\n"
		without = a + ".k\n"
	case 14: // ... and a later declaration creates the endpoint afresh, without the old connection
		with = a + ".k -> " + a + ".j: " + v1 + "\n" + a2 + ".j: null\n" + a + ".j: " + v2 + "\n"
		without = a + ".k\n" + a + ".j: " + v2 + "\n"
	case 15: // null on an ancestor of an endpoint
		with = a + ".k -> " + a + ".j.i: " + v1 + "\n" + b + " -> " + a + ".j.i\n" + a2 + ".j: null\n"
		without = a + ".k\n" + b + "\n"
	case 16: // declared, nulled, declared again: one fresh connection
		with = a + ".k -> " + a + ".j: " + v1 + "\n(" + a + ".k -> " + a2 + ".j)[0]: null\n" + a + ".k -> " + a + ".j: " + v2 + "\n"
		without = a + ".k\n" + a + ".j\n" + a + ".k -> " + a + ".j: " + v2 + "\n"
	}
	vSame(with, without, nil, "override/null semantics")
}
