package d2compiler

import (
	"sort"
	"strconv"
	"strings"

	"oss.terrastruct.com/d2/d2graph"
	nd "oss.terrastruct.com/d2/internal/verifnd"
)

// Canonical projection of a compiled board tree: everything the properties
// call "the diagram" (objects with IDs, labels, shapes, attributes, styles;
// connections with endpoints, direction, index, labels, attributes; nested
// boards; order of elements) and nothing that depends on source positions.
// It is plain Go executed symbolically together with the real compiler, so
// symbolic label/ID bytes flow into the projection and two projections are
// compared by the solver.

func vSc(b *strings.Builder, k string, s *d2graph.Scalar) {
	if s != nil {
		b.WriteString(" " + k + "=<" + s.Value + ">")
	}
}

func vStyle(b *strings.Builder, p string, s *d2graph.Style) {
	vSc(b, p+"opacity", s.Opacity)
	vSc(b, p+"stroke", s.Stroke)
	vSc(b, p+"fill", s.Fill)
	vSc(b, p+"fill-pattern", s.FillPattern)
	vSc(b, p+"stroke-width", s.StrokeWidth)
	vSc(b, p+"stroke-dash", s.StrokeDash)
	vSc(b, p+"border-radius", s.BorderRadius)
	vSc(b, p+"shadow", s.Shadow)
	vSc(b, p+"3d", s.ThreeDee)
	vSc(b, p+"multiple", s.Multiple)
	vSc(b, p+"font", s.Font)
	vSc(b, p+"font-size", s.FontSize)
	vSc(b, p+"font-color", s.FontColor)
	vSc(b, p+"animated", s.Animated)
	vSc(b, p+"bold", s.Bold)
	vSc(b, p+"italic", s.Italic)
	vSc(b, p+"underline", s.Underline)
	vSc(b, p+"filled", s.Filled)
	vSc(b, p+"double-border", s.DoubleBorder)
	vSc(b, p+"text-transform", s.TextTransform)
}

func vAttrs(b *strings.Builder, a *d2graph.Attributes) {
	b.WriteString(" label=<" + a.Label.Value + ">")
	if a.Shape.Value != "" {
		b.WriteString(" shape=<" + a.Shape.Value + ">")
	}
	vStyle(b, "style.", &a.Style)
	vStyle(b, "icon.style.", &a.IconStyle)
	if a.Icon != nil {
		b.WriteString(" icon=<" + a.Icon.String() + ">")
	}
	vSc(b, "tooltip", a.Tooltip)
	vSc(b, "link", a.Link)
	vSc(b, "width", a.WidthAttr)
	vSc(b, "height", a.HeightAttr)
	vSc(b, "top", a.Top)
	vSc(b, "left", a.Left)
	if a.NearKey != nil {
		b.WriteString(" near=<" + strings.Join(a.NearKey.StringIDA(), "|") + ">")
	}
	if a.Language != "" {
		b.WriteString(" lang=<" + a.Language + ">")
	}
	if a.Direction.Value != "" {
		b.WriteString(" direction=<" + a.Direction.Value + ">")
	}
	if len(a.Constraint) > 0 {
		b.WriteString(" constraint=<" + strings.Join(a.Constraint, "|") + ">")
	}
	vSc(b, "grid-rows", a.GridRows)
	vSc(b, "grid-columns", a.GridColumns)
	vSc(b, "grid-gap", a.GridGap)
	vSc(b, "vertical-gap", a.VerticalGap)
	vSc(b, "horizontal-gap", a.HorizontalGap)
	vSc(b, "label-position", a.LabelPosition)
	vSc(b, "icon-position", a.IconPosition)
	vSc(b, "tooltip-position", a.TooltipPosition)
	if len(a.Classes) > 0 {
		b.WriteString(" classes=<" + strings.Join(a.Classes, "|") + ">")
	}
}

func vObj(b *strings.Builder, o *d2graph.Object) {
	b.WriteString("obj " + o.AbsID())
	vAttrs(b, &o.Attributes)
	if o.Class != nil {
		for _, f := range o.Class.Fields {
			b.WriteString(" field=<" + f.Name + ":" + f.Type + ":" + f.Visibility + ">")
		}
		for _, m := range o.Class.Methods {
			b.WriteString(" method=<" + m.Name + ":" + m.Return + ":" + m.Visibility + ">")
		}
	}
	if o.SQLTable != nil {
		for _, c := range o.SQLTable.Columns {
			b.WriteString(" col=<" + c.Name.Label + ":" + c.Type.Label + ":" + strings.Join(c.Constraint, ",") + ">")
		}
	}
	b.WriteString("\n")
}

func vEdge(b *strings.Builder, e *d2graph.Edge) {
	b.WriteString("edge " + e.AbsID() + " src=" + e.Src.AbsID() + " dst=" + e.Dst.AbsID() + " idx=" + strconv.Itoa(e.Index))
	if e.SrcArrow {
		b.WriteString(" <")
	}
	if e.DstArrow {
		b.WriteString(" >")
	}
	vAttrs(b, &e.Attributes)
	if e.SrcArrowhead != nil {
		b.WriteString(" srchead[")
		vAttrs(b, e.SrcArrowhead)
		b.WriteString("]")
	}
	if e.DstArrowhead != nil {
		b.WriteString(" dsthead[")
		vAttrs(b, e.DstArrowhead)
		b.WriteString("]")
	}
	b.WriteString("\n")
}

// vSorted makes vBoard list the objects and connections of every board in
// lexical order of their projection lines instead of graph order (for
// comparisons "up to source positions").
var vSorted bool

func vBoard(b *strings.Builder, g *d2graph.Graph, kind string, depth int) {
	b.WriteString("board " + kind + " " + g.Name)
	if g.IsFolderOnly {
		b.WriteString(" folder")
	}
	b.WriteString(" rootlabel=<" + g.Root.Label.Value + ">")
	vStyle(b, "root.style.", &g.Root.Style)
	b.WriteString("\n")
	if vSorted {
		var lines []string
		for _, o := range g.Objects {
			var lb strings.Builder
			vObj(&lb, o)
			lines = append(lines, lb.String())
		}
		sort.Strings(lines)
		var elines []string
		for _, e := range g.Edges {
			var lb strings.Builder
			vEdge(&lb, e)
			elines = append(elines, lb.String())
		}
		sort.Strings(elines)
		for _, l := range append(lines, elines...) {
			b.WriteString(l)
		}
	} else {
		for _, o := range g.Objects {
			vObj(b, o)
		}
		for _, e := range g.Edges {
			vEdge(b, e)
		}
	}
	if depth > 6 {
		return
	}
	for _, l := range g.Layers {
		vBoard(b, l, "layer", depth+1)
	}
	for _, l := range g.Scenarios {
		vBoard(b, l, "scenario", depth+1)
	}
	for _, l := range g.Steps {
		vBoard(b, l, "step", depth+1)
	}
	b.WriteString("end\n")
}

// vProj is the canonical projection of a compiled diagram.
func vProj(g *d2graph.Graph) string {
	var b strings.Builder
	vBoard(&b, g, "root", 0)
	return b.String()
}

// vCompile compiles text (with optional importable files) and returns its
// projection, or ok=false when compilation reported errors.
func vCompile(text string, files map[string]string) (proj string, ok bool) {
	var opts *CompileOptions
	if files != nil {
		opts = &CompileOptions{FS: vFS(files)}
	}
	g, _, err := Compile("index.d2", strings.NewReader(text), opts)
	if err != nil {
		return err.Error(), false
	}
	return vProj(g), true
}

// vSame asserts that two programs are both rejected or compile to the same diagram.
func vSame(a, b string, files map[string]string, what string) {
	pa, oka := vCompile(a, files)
	pb, okb := vCompile(b, files)
	if oka {
		nd.Cover("compiled")
	} else {
		nd.Cover("rejected")
	}
	nd.Assert(oka == okb, what+": one program compiles and the other is rejected")
	if oka {
		nd.Assert(pa == pb, what+": the two programs compile to different diagrams")
	}
}

// VProj / VBody are the projection exported for harnesses of other packages
// (d2oracle, d2lsp): the whole board tree, and one board's own elements.
func VProj(g *d2graph.Graph) string { return vProj(g) }

func VBody(g *d2graph.Graph, sorted bool) string {
	var b strings.Builder
	old := vSorted
	vSorted = sorted
	sub := *g
	sub.Layers, sub.Scenarios, sub.Steps = nil, nil, nil
	vBoard(&b, &sub, "board", 0)
	vSorted = old
	return b.String()
}

// VerifStubXMLUnmarshal stands in for encoding/xml.Unmarshal (reflection the
// engine does not execute): the compiler only uses it to reject markdown whose
// rendering is not well-formed XML; the stand-in accepts everything.
func VerifStubXMLUnmarshal(data []byte, v any) error { return nil }
