package d2compiler

import (
	"path"
	"strconv"
	"strings"

	nd "oss.terrastruct.com/d2/internal/verifnd"
)

// c14Body draws the content of an imported file: 1..3 statements chosen from
// a menu, with symbolic names and a symbolic value.
// c14GlobThenExplicit: the drawn file declares ***.style.opacity and later an
// explicit style.opacity.
var c14GlobThenExplicit bool

func c14Body() string {
	c14GlobThenExplicit = false
	sawGlob := false
	k := nd.Choose("stmts", 1, nd.Param("S", 2))
	v := nd.From("val", 1, "xyX1")
	var sb strings.Builder
	for i := 0; i < k; i++ {
		n := nd.From("nm"+strconv.Itoa(i), 1, "abA")
		switch nd.Choose("kind"+strconv.Itoa(i), 0, nd.Param("KINDS", 8)) {
		case 0:
			sb.WriteString(n + "\n")
		case 1:
			sb.WriteString(n + ": " + v + "\n")
		case 2:
			sb.WriteString(n + " -> c: " + v + "\n")
		case 3:
			sb.WriteString(n + ".shape: circle\n")
		case 4:
			sb.WriteString(n + ": {k: " + v + "; style.opacity: 0.4}\n")
			if sawGlob {
				c14GlobThenExplicit = true
			}
		case 5:
			sb.WriteString(n + ".k -> " + n + ".j\n")
		case 6: // board-wide globs of the imported file reach the importing file
			sb.WriteString("***.style.opacity: 0." + v + "\n")
			sawGlob = true
		case 7:
			sb.WriteString("(*** -> ***)[*].style.stroke-width: " + v + "\n")
		case 8: // a spread substitution that only the importing file can resolve
			sb.WriteString("...${m}\n")
		}
	}
	return sb.String()
}

// VerifC14Inline: importing a file into an otherwise empty map, or at the top
// of a file, yields the same diagram as writing the file's content there.
func VerifC14Inline() {
	body := c14Body()
	if c14GlobThenExplicit && nd.Known("C14-imported-tripleglob-overrides-later-explicit") {
		// recorded finding: a *** glob of an imported file is applied again in the importing
		// file and overrides explicit values the imported file declares after the glob
		return
	}
	files := map[string]string{"x.d2": body, "d/y.d2": body}
	indent := strings.ReplaceAll(body, "\n", "\n ")
	var with, without string
	switch nd.Choose("case", 0, 4) {
	case 0: // spread import at the top of a file, followed by the importer's own elements
		with, without = "vars: {m: {p; q: "+"M"+"}}\n...@x\nz -> w\n", "vars: {m: {p; q: "+"M"+"}}\n"+body+"z -> w\n"
	case 1: // value import into an empty map
		with, without = "m: @x\nz\n", "m: {\n "+indent+"\n}\nz\n"
	case 2: // spread import inside a map
		with, without = "m: {\n ...@x\n}\nz\n", "m: {\n "+indent+"\n}\nz\n"
	case 3: // file in a subdirectory, extension spelled out
		with, without = "...@d/y.d2\nz\n", body+"z\n"
	case 4: // later declarations in the importer still override imported ones
		with, without = "...@x\na.label: O\n", body+"a.label: O\n"
	}
	vSorted = true // "up to source positions": element order across files is not compared
	vSame(with, without, files, "import equals inlining")
	vSorted = false
}

// VerifC14Cycle: an import chain that leads back to a file already being
// imported is reported as an error instead of recursing.
func VerifC14Cycle() {
	names := []string{"index", "x", "d/y", "d/z"}
	menus := [][]string{
		{"", "x", "d/y", "./x", "d/z"},
		{"", "d/y", "index", "x.d2", "d/../x", "d/z"},
		{"", "z", "../x", "y", "../index", "./z.d2"},
		{"", "y", "./y", "../x", "z", "q"},
	}
	files := map[string]string{}
	imp := make([]string, len(names))
	for i, n := range names {
		m := menus[i]
		if t := nd.Param("T", 0); t > 0 && t < len(m) {
			m = m[:t]
		}
		t := m[nd.Choose("imp"+strconv.Itoa(i), 0, len(m)-1)]
		imp[i] = t
		body := "o" + strconv.Itoa(i) + "\n"
		if t != "" {
			w := t
			if strings.Contains(t, "/../") {
				// a path with .. in the middle has to be quoted to be an import path at all
				w = "\"" + t + "\""
			}
			if i == 0 && nd.Bool("spread"+strconv.Itoa(i)) {
				body += "...@" + w + "\n"
			} else {
				body += "m: @" + w + "\n"
			}
		}
		files[n+".d2"] = body
	}
	// reference: follow the chain from index with path.Join semantics
	resolve := func(from, t string) string {
		if path.Ext(t) != ".d2" {
			t += ".d2"
		}
		return path.Join(path.Dir(from), t)
	}
	cur := "index.d2"
	seen := map[string]bool{cur: true}
	cyc, missing := false, false
	for steps := 0; steps < 8; steps++ {
		var t string
		found := false
		for i, n := range names {
			if n+".d2" == cur {
				t, found = imp[i], true
			}
		}
		if !found {
			missing = true
			break
		}
		if t == "" {
			break
		}
		nxt := resolve(cur, t)
		if seen[nxt] {
			cyc = true
			break
		}
		seen[nxt] = true
		cur = nxt
	}
	text := files["index.d2"]
	p, ok := vCompile(text, files)
	nd.Cover("done")
	if cyc {
		nd.Cover("cycle")
		nd.Assert(!ok, "a cyclic import chain is an error")
		nd.Assert(strings.Contains(p, "cyclic import"), "the cycle is reported as such")
	} else if missing {
		nd.Assert(!ok, "importing a missing file is an error")
	} else {
		nd.Cover("acyclic")
		nd.Assert(ok, "an acyclic import chain of existing files compiles")
	}
}
