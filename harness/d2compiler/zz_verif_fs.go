package d2compiler

import (
	"io"
	"io/fs"
	"path"
	"time"
)

// vFS is a minimal read-only in-memory fs.FS for importable files (the
// repository's lib/memfs stamps files with time.Now, which is environment).
type vFS map[string]string

type vFile struct {
	name string
	data string
	off  int
}

func (f vFS) Open(name string) (fs.File, error) {
	s, ok := f[path.Clean(name)]
	if !ok {
		return nil, fs.ErrNotExist
	}
	return &vFile{name: name, data: s}, nil
}

func (f *vFile) Stat() (fs.FileInfo, error) { return vInfo{f}, nil }
func (f *vFile) Close() error               { return nil }
func (f *vFile) Read(b []byte) (int, error) {
	if f.off >= len(f.data) {
		return 0, io.EOF
	}
	n := copy(b, f.data[f.off:])
	f.off += n
	return n, nil
}

type vInfo struct{ f *vFile }

func (i vInfo) Name() string       { return path.Base(i.f.name) }
func (i vInfo) Size() int64        { return int64(len(i.f.data)) }
func (i vInfo) Mode() fs.FileMode  { return 0o444 }
func (i vInfo) ModTime() time.Time { return time.Time{} }
func (i vInfo) IsDir() bool        { return false }
func (i vInfo) Sys() any           { return nil }

// VFS is the in-memory file system exported for harnesses of other packages.
func VFS(files map[string]string) fs.FS { return vFS(files) }
