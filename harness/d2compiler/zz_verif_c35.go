package d2compiler

import (
	"strconv"
	"strings"

	"oss.terrastruct.com/d2/d2graph"
	nd "oss.terrastruct.com/d2/internal/verifnd"
)

// VerifC35Links: a link to a board is stored as an absolute board path that
// exists; links to missing boards or to the board itself are dropped.
// Reference: resolution of the link against the (statically known) board tree
// of the template, written independently of compileLink/validateBoardLinks.
func VerifC35Links() {
	toks := []string{"_", "layers.x", "layers.y", "layers.w", "scenarios.s", "layers.z", "steps.x", "LAYERS.x", "layers.X"}
	k := nd.Choose("ntok", 1, nd.Param("T", 2))
	var link []string
	// after the first token also single path elements: a board name without its kind, a kind without a name
	more := append(append([]string{}, toks...), "x", "y", "layers", "s")
	for i := 0; i < k; i++ {
		if i == 0 {
			link = append(link, toks[nd.Choose("tok"+strconv.Itoa(i), 0, len(toks)-1)])
		} else {
			link = append(link, more[nd.Choose("tok"+strconv.Itoa(i), 0, len(more)-1)])
		}
	}
	site := nd.Choose("site", 0, 3)
	val := strings.Join(link, ".")
	ls := [4]string{}
	ls[site] = ".link: " + val
	text := "a" + ls[0] + "\nlayers: {\n x: {\n  b" + ls[1] + "\n  layers: {\n   y: {\n    c" + ls[2] + "\n   }\n  }\n }\n w: {\n  e\n }\n}\nscenarios: {\n s: {\n  d" + ls[3] + "\n }\n}\n"
	g, _, err := Compile("index.d2", strings.NewReader(text), nil)
	nd.Assert(err == nil, "the board template compiles")
	nd.Cover("compiled")
	boards := map[string]bool{"": true, "layers.x": true, "layers.x.layers.y": true, "layers.w": true, "scenarios.s": true}
	scopes := [][]string{nil, {"layers", "x"}, {"layers", "x", "layers", "y"}, {"scenarios", "s"}}
	scope := scopes[site]
	var segs []string
	for _, t := range link {
		segs = append(segs, strings.Split(t, ".")...)
	}
	keywordCase := false
	for len(segs) > 0 && segs[0] == "_" && len(scope) >= 2 {
		scope = scope[:len(scope)-2]
		segs = segs[1:]
	}
	abs := strings.Join(append(append([]string{}, scope...), segs...), ".")
	for i, s := range segs {
		if i%2 == 0 && s == "LAYERS" {
			keywordCase = true
		}
	}
	self := strings.Join(scopes[site], ".")
	var obj *d2graph.Object
	var bg *d2graph.Graph
	switch site {
	case 0:
		bg = g
	case 1:
		bg = g.Layers[0]
	case 2:
		bg = g.Layers[0].Layers[0]
	case 3:
		bg = g.Scenarios[0]
	}
	for _, o := range bg.Objects {
		if o.ID == []string{"a", "b", "c", "d"}[site] {
			obj = o
		}
	}
	nd.Assert(obj != nil, "the linking object exists on its board")
	if keywordCase {
		// board keywords are matched case-insensitively when the link is
		// recognised; what is stored then is outside this reference
		return
	}
	if abs == self && len(scopes[site]) >= 4 && nd.Known("C35-nested-self-link") {
		// recorded finding: Graph.IDA() is wrong for boards nested two levels deep, so a
		// link from such a board to itself is not recognised as a self link
		return
	}
	if boards[abs] && abs != self {
		nd.Cover("kept")
		want := "root"
		if abs != "" {
			want += "." + abs
		}
		nd.Assert(obj.Link != nil, "a link to an existing board is kept")
		nd.Assert(obj.Link.Value == want, "the stored link is the absolute board path")
	} else {
		nd.Cover("dropped")
		nd.Assert(obj.Link == nil, "a link to a missing board or to the board itself is dropped")
	}
}
