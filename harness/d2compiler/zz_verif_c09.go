package d2compiler

import (
	"strconv"
	"strings"

	"oss.terrastruct.com/d2/d2graph"
	"oss.terrastruct.com/d2/d2parser"
	nd "oss.terrastruct.com/d2/internal/verifnd"
)

const c09Alphabet = "aAb.-><:;{}'*"

// c09Compile draws a program of length <= N over c09Alphabet and compiles it;
// paths on which compilation reports errors end here.
func c09Compile() (*d2graph.Graph, string) {
	n := nd.Choose("len", 1, nd.Param("N", 3))
	s := nd.From("s", n, c09Alphabet)
	g, _, err := Compile("f.d2", strings.NewReader(s), nil)
	if err != nil {
		nd.Cover("rejected")
		return nil, s
	}
	nd.Cover("compiled")
	return g, s
}

func c09Index(g *d2graph.Graph, o *d2graph.Object) int {
	k := -1
	for i, x := range g.Objects {
		if x == o {
			nd.Assert(k == -1, "an object is listed once in Graph.Objects")
			k = i
		}
	}
	return k
}

// VerifC09Tree: the compiled root board is a well-formed tree with consistent connection endpoints.
func VerifC09Tree() {
	g, _ := c09Compile()
	if g == nil {
		return
	}
	nd.Assert(g.Root != nil && g.Root.Parent == nil, "the root has no parent")
	for _, o := range g.Objects {
		nd.Cover("object")
		nd.Assert(c09Index(g, o) >= 0, "object is listed")
		nd.Assert(o.Graph == g, "object belongs to its board's graph")
		nd.Assert(o.Parent != nil, "every object has a parent")
		p := o
		steps := 0
		for p != g.Root && p != nil && steps <= len(g.Objects) {
			p = p.Parent
			steps++
		}
		nd.Assert(p == g.Root, "the parent chain reaches the root")
		nd.Assert(o.Parent.Children[strings.ToLower(o.ID)] == o, "the parent maps the lower-cased ID to this object")
		cnt := 0
		for _, c := range o.Parent.ChildrenArray {
			if c == o {
				cnt++
			}
		}
		nd.Assert(cnt == 1, "the parent lists the object exactly once among its children")
		nd.Assert(len(o.Children) == len(o.ChildrenArray), "children map and children list have the same size")
		for _, c := range o.ChildrenArray {
			nd.Assert(c.Parent == o && c09Index(g, c) >= 0, "a listed child is an object of the board with this parent")
		}
	}
	for _, c := range g.Root.ChildrenArray {
		nd.Assert(c.Parent == g.Root && c09Index(g, c) >= 0, "a top-level child is an object of the board")
	}
	for _, e := range g.Edges {
		nd.Cover("edge")
		nd.Assert(e.Src != nil && e.Dst != nil, "a connection has both endpoints")
		nd.Assert(c09Index(g, e.Src) >= 0 && c09Index(g, e.Dst) >= 0, "connection endpoints are objects of the same board")
	}
}

// VerifC06IDs: IDs of the compiled root board are valid, unambiguous key paths.
func VerifC06IDs() {
	g, _ := c09Compile()
	if g == nil {
		return
	}
	for i, o := range g.Objects {
		nd.Cover("object")
		abs := o.AbsID()
		k, err := d2parser.ParseKey(abs)
		nd.Assert(err == nil && k != nil, "the absolute ID is valid key syntax")
		var names []string
		for p := o; p != nil && p != g.Root; p = p.Parent {
			names = append([]string{p.IDVal}, names...)
		}
		nd.Assert(len(k.Path) == len(names), "the absolute ID parses to one key path with one segment per ancestor")
		for j, seg := range k.Path {
			nd.Assert(seg.Unbox().ScalarString() == names[j], "each segment parses back to the object's name")
		}
		for j := 0; j < i; j++ {
			nd.Assert(!strings.EqualFold(g.Objects[j].AbsID(), abs), "distinct objects have distinct absolute IDs ignoring case")
		}
	}
	for i, e := range g.Edges {
		nd.Cover("edge")
		for j := 0; j < i; j++ {
			nd.Assert(g.Edges[j].AbsID() != e.AbsID(), "each connection ID identifies exactly one connection")
		}
	}
}

func c06Path(g *d2graph.Graph, o *d2graph.Object) string {
	var names []string
	for p := o; p != nil && p != g.Root; p = p.Parent {
		names = append([]string{p.IDVal}, names...)
	}
	return strings.Join(names, "\x00")
}

// c06SpecialName: names that mean something else than an object when written without quotes.
func c06SpecialName(n string) bool {
	l := strings.ToLower(n)
	switch l {
	case "_", "layers", "scenarios", "steps", "label", "shape", "style", "near", "icon", "link", "tooltip", "width", "height", "top", "left", "class", "classes", "vars", "direction", "constraint", "desc", "source-arrowhead", "target-arrowhead", "grid-rows", "grid-columns", "grid-gap", "vertical-gap", "horizontal-gap", "null":
		return true
	}
	return false
}

// VerifC06Quoted: objects declared through quoted keys. The absolute ID must
// name exactly that object: written as a program of its own it declares an
// object with the same name path and nothing else.
func VerifC06Quoted() {
	words := []string{"_", "label", "layers", "Shape", "null", "a.b", "*", "a b", " a", "a:", "-", "a--", "#", "$x", "@a", "(a)", "a'", "a\\", "...", "&a", "!&a", "[a]"}
	var name string
	if nd.Bool("word") {
		name = words[nd.Choose("w", 0, len(words)-1)]
	} else {
		name = nd.From("n", nd.Choose("nl", 1, nd.Param("NQ", 2)), "a_.*- :'\\#$&!@()[]{}<>;|~`")
	}
	q := "\""
	if nd.Bool("single") {
		q = "'"
	}
	nd.Assume(!strings.Contains(name, q) && !strings.Contains(name, "\\"))
	prefix := []string{"", "x.", "x: {", "\"y z\"."}[nd.Choose("prefix", 0, 3)]
	text := prefix + q + name + q
	if strings.HasSuffix(prefix, "{") {
		text += "}"
	}
	g, _, err := Compile("f.d2", strings.NewReader(text+"\n"), nil)
	if err != nil {
		nd.Cover("rejected")
		return
	}
	nd.Cover("compiled")
	var o *d2graph.Object
	for _, x := range g.Objects {
		if x.IDVal == name {
			o = x
		}
	}
	if nd.Known("C06-special-name-id-unquoted") && c06SpecialName(name) {
		// recorded finding: `_`, reserved keywords and board keywords declared through a
		// quoted key get an unquoted (and lower-cased) ID
		return
	}
	nd.Assert(o != nil, "a quoted key declares an object with exactly that name")
	abs := o.AbsID()
	k, err := d2parser.ParseKey(abs)
	nd.Assert(err == nil && k != nil, "the absolute ID is valid key syntax")
	g2, _, err := Compile("f.d2", strings.NewReader(abs+"\n"), nil)
	nd.Assert(err == nil, "the absolute ID written as a program compiles")
	found := false
	for _, x := range g2.Objects {
		if c06Path(g2, x) == c06Path(g, o) {
			found = true
		}
	}
	nd.Assert(found, "the absolute ID written as a program declares the object it names")
	nd.Assert(len(g2.Objects) == strings.Count(c06Path(g, o), "\x00")+1 && len(g2.Edges) == 0, "the absolute ID written as a program declares nothing else")
}

// VerifC06Edges: connection IDs stay unique when connections end at columns of
// tables (the connection is stored at the table, the column is a detail of the
// end), at nested objects spelled in different ways, and in both directions.
func VerifC06Edges() {
	menu := []string{"x -> t.a", "x -> t.b", "t.a -> x", "t.b -> x", "t.a -> t.b", "t.b -> u.c", "x -> u.c", "x -> t", "t -> x", "x -> T.a", "p.q -> t.a", "p: {q -> _.t.b}"}
	k := nd.Choose("k", 1, nd.Param("KE", 3))
	text := "t: {shape: sql_table; a: int; b: int}\nu: {shape: sql_table; c: int}\nx\np: {q}\n"
	for i := 0; i < k; i++ {
		text += menu[nd.Choose("e"+strconv.Itoa(i), 0, len(menu)-1)] + "\n"
	}
	g, _, err := Compile("f.d2", strings.NewReader(text), nil)
	nd.Assert(err == nil, "the table program compiles")
	nd.Cover("compiled")
	nd.Assert(len(g.Edges) == k, "one connection per statement")
	for i, e := range g.Edges {
		nd.Cover("edge")
		for j := 0; j < i; j++ {
			nd.Assert(g.Edges[j].AbsID() != e.AbsID(), "each connection ID identifies exactly one connection")
		}
	}
}
