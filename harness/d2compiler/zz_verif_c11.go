package d2compiler

import (
	"strconv"
	"strings"

	"oss.terrastruct.com/d2/d2graph"
	nd "oss.terrastruct.com/d2/internal/verifnd"
)

// c11Edges draws k connection statements between the objects a and b (either
// spelling, either orientation, any of the four arrow forms, optionally inside
// a chain through c) and returns the program text.
func c11Edges(k int) string {
	forms := []string{"a -> b", "b -> a", "a <- b", "a -- b", "a <-> b", "A -> b", "a -> b -> c", "b <- A", "a -> B -> a", "b <-> a", "b -- A", "B <-> a -- b"}
	var sb strings.Builder
	for i := 0; i < k; i++ {
		sb.WriteString(forms[nd.Choose("form"+strconv.Itoa(i), 0, len(forms)-1)])
		sb.WriteString(": l" + strconv.Itoa(i) + "\n")
	}
	return sb.String()
}

func c11Key(e *d2graph.Edge) string {
	k := e.Src.AbsID() + "|" + e.Dst.AbsID()
	if e.SrcArrow {
		k += "<"
	}
	if e.DstArrow {
		k += ">"
	}
	return k
}

// VerifC11Index: connections with the same endpoints and direction are
// numbered 0,1,2,... in declaration order; no two connections share an ID.
func VerifC11Index() {
	k := nd.Choose("k", 1, nd.Param("K", 3))
	g, _, err := Compile("index.d2", strings.NewReader(c11Edges(k)), nil)
	nd.Assert(err == nil, "connection statements compile")
	nd.Cover("compiled")
	next := map[string]int{}
	for i, e := range g.Edges {
		key := c11Key(e)
		nd.Assert(e.Index == next[key], "parallel connections are numbered consecutively in declaration order")
		next[key]++
		for j := 0; j < i; j++ {
			nd.Assert(g.Edges[j].AbsID() != e.AbsID(), "no two connections of a board share an ID")
		}
	}
	// declaration order: labels l0.. appear in order (a chain declares two connections with one label)
	last := -1
	for _, e := range g.Edges {
		n, _ := strconv.Atoi(e.Label.Value[1:])
		nd.Assert(n >= last, "connections are listed in declaration order")
		last = n
	}
}

// VerifC11Ref: a reference to an existing index changes exactly that
// connection; a reference to a missing index is an error. The base holds
// connections between a and b in both orientations and all four arrow forms;
// the reference names one orientation and arrow form (either letter case).
func VerifC11Ref() {
	arrows := []string{"->", "<-", "--", "<->"}
	k := nd.Choose("k", 1, nd.Param("K", 3))
	base := ""
	type conn struct {
		flip  bool
		arrow int
	}
	var conns []conn
	for i := 0; i < k; i++ {
		c := conn{nd.Bool("flip" + strconv.Itoa(i)), nd.Choose("arrow"+strconv.Itoa(i), 0, nd.Param("ARROWS", 4)-1)}
		conns = append(conns, c)
		if c.flip {
			base += "b " + arrows[c.arrow] + " a: l" + strconv.Itoa(i) + "\n"
		} else {
			base += "a " + arrows[c.arrow] + " b: l" + strconv.Itoa(i) + "\n"
		}
	}
	g0, _, err0 := Compile("index.d2", strings.NewReader(base), nil)
	nd.Assert(err0 == nil, "base compiles")
	ref := conn{nd.Bool("refflip"), nd.Choose("refarrow", 0, nd.Param("ARROWS", 4)-1)}
	// the connections the reference can mean, in declaration order
	var same []int
	for i, c := range conns {
		if c == ref {
			same = append(same, i)
		}
	}
	idx := nd.Choose("idx", 0, 3)
	x, y := "a", "b"
	if ref.flip {
		x, y = "b", "a"
	}
	if nd.Bool("refcase") {
		x = strings.ToUpper(x)
	}
	g1, _, err1 := Compile("index.d2", strings.NewReader(base+"("+x+" "+arrows[ref.arrow]+" "+y+")["+strconv.Itoa(idx)+"].style.opacity: 0.5\n"), nil)
	if idx >= len(same) {
		nd.Cover("missing")
		nd.Assert(err1 != nil, "a reference to a missing connection index is an error")
		return
	}
	nd.Cover("hit")
	nd.Assert(err1 == nil, "a reference to an existing index compiles")
	nd.Assert(len(g1.Edges) == len(g0.Edges) && len(g0.Edges) == k, "an indexed reference creates no connection")
	for i, e := range g1.Edges {
		hit := i == same[idx]
		nd.Assert((e.Style.Opacity != nil) == hit, "exactly the referenced connection is changed")
		nd.Assert(e.Label.Value == "l"+strconv.Itoa(i) && e.Label.Value == g0.Edges[i].Label.Value && e.AbsID() == g0.Edges[i].AbsID(), "other attributes and IDs are unchanged")
	}
}
