package d2compiler

import (
	"strings"

	nd "oss.terrastruct.com/d2/internal/verifnd"
)

// c13Value draws the text of a scalar variable value: 1..N characters that
// cannot end or split an unquoted string (so the text is the value).
func c13Value() string {
	n := nd.Choose("len", 1, nd.Param("N", 2))
	v := nd.From("v", n, "aAn1 _-.")
	nd.Assume(v[0] != ' ' && v[n-1] != ' ')
	nd.Assume(!strings.EqualFold(v, "null"))
	return v
}

// VerifC13Subst: a substitution compiles exactly as if the variable's value
// had been written in its place, in every kind of use site.
func VerifC13Subst() {
	v := c13Value()
	site := nd.Choose("site", 0, 8)
	var with, without string
	switch site {
	case 0: // alone as a label
		with, without = "vars: {x: "+v+"}\na: ${x}\n", "vars: {x: "+v+"}\na: "+v+"\n"
	case 1: // inside unquoted text
		with, without = "vars: {x: "+v+"}\na: p ${x} q\n", "vars: {x: "+v+"}\na: p "+v+" q\n"
	case 2: // inside double-quoted text
		with, without = "vars: {x: "+v+"}\na: \"p ${x} q\"\n", "vars: {x: "+v+"}\na: \"p "+v+" q\"\n"
	case 3: // connection label and a style value
		with, without = "vars: {x: "+v+"}\na -> b: ${x}\na.label: ${x}\n", "vars: {x: "+v+"}\na -> b: "+v+"\na.label: "+v+"\n"
	case 4: // innermost scope wins
		with, without = "vars: {x: zz}\nc: {\n vars: {x: "+v+"}\n a: ${x}\n}\nd: ${x}\n", "vars: {x: zz}\nc: {\n vars: {x: "+v+"}\n a: "+v+"\n}\nd: zz\n"
	case 6: // innermost scope wins inside double-quoted text and in a connection label
		with, without = "vars: {x: zz}\nc: {\n vars: {x: "+v+"}\n a: \"p ${x}\"\n a -> b: \"${x} q\"\n}\nd: \"${x}\"\n", "vars: {x: zz}\nc: {\n vars: {x: "+v+"}\n a: \"p "+v+"\"\n a -> b: \""+v+" q\"\n}\nd: \"zz\"\n"
	case 7: // two substitutions in one string, unquoted and double-quoted
		with, without = "vars: {x: "+v+"; y: ww}\na: ${x} ${y}\nb: \"${y}${x}\"\n", "vars: {x: "+v+"; y: ww}\na: "+v+" ww\nb: \"ww"+v+"\"\n"
	case 8: // a variable defined only in the outer scope, used from two levels down
		with, without = "vars: {x: "+v+"}\nc: {\n vars: {y: ww}\n e: {\n  a: ${x} ${y}\n }\n}\n", "vars: {x: "+v+"}\nc: {\n vars: {y: ww}\n e: {\n  a: "+v+" ww\n }\n}\n"
	case 5: // nested variable path
		with, without = "vars: {y: {x: "+v+"}}\na: ${y.x}\n", "vars: {y: {x: "+v+"}}\na: "+v+"\n"
	}
	vSame(with, without, nil, "substitution equals textual replacement")
}

// VerifC13Single: single-quoted text is never substituted; an undefined variable is an error.
func VerifC13Single() {
	v := c13Value()
	p, ok := vCompile("vars: {x: "+v+"}\na: '${x}'\n", nil)
	nd.Assert(ok, "single-quoted text with ${x} compiles")
	nd.Cover("compiled")
	nd.Assert(strings.Contains(p, "label=<${x}>"), "single-quoted text is not substituted")
	name := nd.From("u", 1, "xyX")
	_, ok2 := vCompile("vars: {x: "+v+"}\na: ${"+name+"}\n", nil)
	nd.Assert(ok2 == (name == "x" || name == "X"), "a reference to an undefined variable is an error")
	// an undefined variable after a defined one in the same string is still an error
	_, ok4 := vCompile("vars: {x: "+v+"}\na: ${x} ${"+name+"}\nb: \"${x}${"+name+"}\"\n", nil)
	nd.Assert(ok4 == (name == "x" || name == "X"), "an undefined variable is an error also when it follows a defined one in the same string")
	// a path below a scalar variable names nothing: an error, not a crash
	_, ok3 := vCompile("vars: {x: "+v+"}\na: ${x."+name+"}\n", nil)
	nd.Assert(!ok3, "a reference below a scalar variable is an error")
}
