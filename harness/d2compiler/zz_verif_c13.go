package d2compiler

import (
	"strings"

	nd "oss.terrastruct.com/d2/internal/verifnd"
)

// c13Value draws the text of a scalar variable value: 1..N characters that
// cannot end or split an unquoted string (so the text is the value).
func c13Value() string {
	n := nd.Choose("len", 1, nd.Param("N", 2))
	v := nd.From("v", n, "aAn1 _-.")
	nd.Assume(v[0] != ' ' && v[n-1] != ' ')
	nd.Assume(!strings.EqualFold(v, "null"))
	return v
}

// VerifC13Subst: a substitution compiles exactly as if the variable's value
// had been written in its place, in every kind of use site.
func VerifC13Subst() {
	v := c13Value()
	site := nd.Choose("site", 0, 5)
	var with, without string
	switch site {
	case 0: // alone as a label
		with, without = "vars: {x: "+v+"}\na: ${x}\n", "vars: {x: "+v+"}\na: "+v+"\n"
	case 1: // inside unquoted text
		with, without = "vars: {x: "+v+"}\na: p ${x} q\n", "vars: {x: "+v+"}\na: p "+v+" q\n"
	case 2: // inside double-quoted text
		with, without = "vars: {x: "+v+"}\na: \"p ${x} q\"\n", "vars: {x: "+v+"}\na: \"p "+v+" q\"\n"
	case 3: // connection label and a style value
		with, without = "vars: {x: "+v+"}\na -> b: ${x}\na.label: ${x}\n", "vars: {x: "+v+"}\na -> b: "+v+"\na.label: "+v+"\n"
	case 4: // innermost scope wins
		with, without = "vars: {x: zz}\nc: {\n vars: {x: "+v+"}\n a: ${x}\n}\nd: ${x}\n", "vars: {x: zz}\nc: {\n vars: {x: "+v+"}\n a: "+v+"\n}\nd: zz\n"
	case 5: // nested variable path
		with, without = "vars: {y: {x: "+v+"}}\na: ${y.x}\n", "vars: {y: {x: "+v+"}}\na: "+v+"\n"
	}
	vSame(with, without, nil, "substitution equals textual replacement")
}

// VerifC13Single: single-quoted text is never substituted; an undefined variable is an error.
func VerifC13Single() {
	v := c13Value()
	p, ok := vCompile("vars: {x: "+v+"}\na: '${x}'\n", nil)
	nd.Assert(ok, "single-quoted text with ${x} compiles")
	nd.Cover("compiled")
	nd.Assert(strings.Contains(p, "label=<${x}>"), "single-quoted text is not substituted")
	name := nd.From("u", 1, "xyX")
	_, ok2 := vCompile("vars: {x: "+v+"}\na: ${"+name+"}\n", nil)
	nd.Assert(ok2 == (name == "x" || name == "X"), "a reference to an undefined variable is an error")
}
