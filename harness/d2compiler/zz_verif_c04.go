package d2compiler

import (
	"strings"

	"oss.terrastruct.com/d2/d2format"
	"oss.terrastruct.com/d2/d2parser"
	nd "oss.terrastruct.com/d2/internal/verifnd"
)

func c04Check(s string) {
	ast, err := d2parser.Parse("index.d2", strings.NewReader(s), nil)
	if err != nil {
		nd.Cover("unparsable")
		return
	}
	if nd.Known("C04-trailing-escaped-space") && vTrailingEscapedSpace(s) {
		// recorded finding (C03): an escaped white space at the end of an unquoted string is
		// trimmed from the raw text, which leaves the backslash in front of the line end
		return
	}
	f := d2format.Format(ast)
	pa, oka := vCompile(s, nil)
	if !oka {
		nd.Cover("rejected")
		return
	}
	nd.Cover("compiled")
	pb, okb := vCompile(f, nil)
	nd.Assert(okb, "the formatted text of a compilable input compiles")
	nd.Assert(pa == pb, "the formatted text compiles to an equivalent diagram")
}

// VerifC04Short: every program of length <= N over a 16-character alphabet.
func VerifC04Short() {
	n := nd.Choose("len", 1, nd.Param("N", 3))
	c04Check(nd.From("s", n, "aA.-><:;{}'*\n &_"))
}

// VerifC04Templates: longer constructs with symbolic holes: keyword case
// masks, board blocks placed first or last, quoted and block strings.
func VerifC04Templates() {
	kwc := func(name, word string) string {
		w := nd.CaseMask(name, word)
		if nd.Known("C04-keyword-case") {
			// recorded finding: the formatter lower-cases reserved keywords, but the
			// compiler compares many of them case-sensitively (a.Shape is ignored)
			nd.Assume(w == word)
		}
		return w
	}
	h := nd.From("h", nd.Choose("hl", 1, nd.Param("H", 2)), "aA'\" .\\$#|-")
	var s string
	switch nd.Choose("tpl", 0, nd.Param("TPLS", 19)-1) {
	case 0:
		s = "a: " + h + "\n"
	case 1:
		s = "a." + kwc("kw", "shape") + ": " + nd.CaseMask("vw", "circle") + "\n"
	case 2:
		s = kwc("kw", "layers") + ": {x: {b}}\na: " + h + "\n"
	case 3:
		if nd.Known("C04-board-moved-behind-later-statements") {
			// recorded finding: the formatter moves scenarios/steps blocks to the end of the
			// file, but a scenario inherits only what is declared before it
			nd.Assume(false)
		}
		s = "a: " + h + "\nscenarios: {x: {b: " + h + "}}\nc\n"
	case 10: // a layers block in the middle (layers inherit nothing, moving it is harmless)
		s = "a: " + h + "\nlayers: {x: {b: " + h + "}}\nc\n"
	case 11: // scenarios and steps already last
		s = "a: " + h + "\nc\nscenarios: {x: {b: " + h + "}}\nsteps: {y: {d}; z: {a: " + h + "}}\n"
	case 4:
		s = "a: \"" + h + "\"\n"
	case 5:
		s = "a: |md " + h + " |\n"
	case 6:
		s = "a -> b: " + h + "\n(a -> b)[0].style.opacity: 0.4\n"
	case 7:
		s = "a: {" + kwc("kw", "style") + "." + kwc("vw", "bold") + ": true}\n"
	case 8:
		s = "vars: {x: " + h + "}\na: ${x}\n"
	case 9:
		s = "a: '" + h + "'\n" + h + "\n"
	case 12: // a label that happens to be spelled like a reserved word, in any letter case
		words := []string{"label", "shape", "near", "width", "link", "style", "layers", "steps", "class", "top", "icon", "null", "true"}
		s = "a: " + nd.CaseMask("vw", words[nd.Choose("word", 0, len(words)-1)]) + "\n"
	case 13: // the same as a connection label and inside a container
		words := []string{"label", "near", "link", "left", "desc"}
		s = "x: {a -> b: " + nd.CaseMask("vw", words[nd.Choose("word", 0, len(words)-1)]) + "}\n"
	case 14: // comments next to keys on one line
		s = "a; \"\"\" " + h + " \"\"\"\nb # " + h + "\n"
	case 15: // substitutions inside double-quoted text with text around them
		s = "vars: {v: 1}\na: \"" + h + "${v}" + h + "\"\n"
	case 16: // connection fields without index, with index, with a key prefix
		f := nd.Choose("f", 0, 2)
		s = "a -> b\nx: {c -> d}\n(a -> b)." + []string{"label", "style.opacity", "source-arrowhead.shape"}[f] + ": " + []string{"hi", "0.4", "circle"}[f] + "\nx.(c -> d)[0].label: " + h + "\n"
	case 17: // block strings with blank and white-space-only lines
		ws := []string{"", " ", "  ", "    ", "\t"}[nd.Choose("ws", 0, 4)]
		s = "x: |md\n  a\n  " + ws + "\n  " + h + "\n|\n"
	case 18: // connection chains and reversed arrows with labels
		s = "a -> b <- c -- d: " + h + "\nb <-> a: " + h + "\n"
	}
	c04Check(s)
}

// vTrailingEscapedSpace: some unquoted text of s ends in an escaped white space
// (backslash, blank, then optional blanks up to a line end, closing brace or
// bracket, semicolon, comment or the end of the input).
func vTrailingEscapedSpace(s string) bool {
	for i := 0; i+1 < len(s); i++ {
		if s[i] != '\\' || (s[i+1] != ' ' && s[i+1] != '\t') {
			continue
		}
		j := i + 2
		for j < len(s) && (s[j] == ' ' || s[j] == '\t') {
			j++
		}
		if j == len(s) || s[j] == '\n' || s[j] == '}' || s[j] == ']' || s[j] == ';' || s[j] == '#' {
			return true
		}
	}
	return false
}
