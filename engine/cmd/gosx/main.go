// gosx: solver-based checking of Go code by symbolic interpretation of go/ssa.
//
//	gosx check <ID> [--tier quick|thorough]   run a registered check (/verif/checks/<ID>.json)
//	gosx run -pkg P -func F -file harness.go  ad-hoc exploration of one harness
package main

import (
	"encoding/json"
	"flag"
	"fmt"
	"os"
	"path/filepath"
	"runtime/pprof"
	"strings"
	"time"

	"gosx/interp"
)

func main() {
	if len(os.Args) < 2 {
		fmt.Fprintln(os.Stderr, "usage: gosx check|run|replay ...")
		os.Exit(2)
	}
	switch os.Args[1] {
	case "check":
		os.Exit(cmdCheck(os.Args[2:]))
	case "run":
		os.Exit(cmdRun(os.Args[2:]))
	case "replay":
		os.Exit(cmdReplay(os.Args[2:]))
	case "version":
		fmt.Println("gosx 1")
	default:
		fmt.Fprintln(os.Stderr, "unknown subcommand", os.Args[1])
		os.Exit(2)
	}
}

func verifRoot() string {
	if r := os.Getenv("VERIF_ROOT"); r != "" {
		return r
	}
	exe, err := os.Executable()
	if err == nil {
		d := filepath.Dir(filepath.Dir(exe))
		if _, err := os.Stat(filepath.Join(d, "properties.jsonl")); err == nil {
			return d
		}
	}
	return "/verif"
}

func repoRoot() string {
	if r := os.Getenv("VERIF_REPO"); r != "" {
		return r
	}
	return "/repo"
}

const modPath = "oss.terrastruct.com/d2"

// pkgDir maps an import path of the d2 module to its directory in the repo.
func pkgDir(pkg string) string {
	return filepath.Join(repoRoot(), strings.TrimPrefix(strings.TrimPrefix(pkg, modPath), "/"))
}

func cmdRun(args []string) int {
	fs := flag.NewFlagSet("run", flag.ExitOnError)
	pkg := fs.String("pkg", "", "import path of the package under test")
	fn := fs.String("func", "", "harness entry function")
	file := fs.String("file", "", "harness file(s), comma separated (overlaid into the package dir)")
	workers := fs.Int("workers", 0, "workers")
	budget := fs.Int64("budget", 0, "instruction budget per path")
	wall := fs.Duration("wall", 0, "wall clock limit")
	maxPaths := fs.Int("maxpaths", 0, "stop after this many paths")
	solver := fs.String("solver", "z3", "z3|z3-new|cvc5")
	params := fs.String("params", "", "k=v,k=v harness parameters")
	trace := fs.Bool("trace", false, "trace")
	initRun := fs.String("initrun", "", "extra package prefixes to initialise")
	prof := fs.String("cpuprofile", "", "write cpu profile")
	subst := fs.String("subst", "", "target=stub,target=stub function substitutions")
	schedOn := fs.Bool("sched", false, "enable the cooperative scheduler")
	fs.Parse(args)
	if *prof != "" {
		f, _ := os.Create(*prof)
		pprof.StartCPUProfile(f)
		defer pprof.StopCPUProfile()
	}
	ov := map[string][]byte{}
	addND(ov)
	for _, f := range strings.Split(*file, ",") {
		if f == "" {
			continue
		}
		b, err := os.ReadFile(f)
		if err != nil {
			fmt.Fprintln(os.Stderr, err)
			return 2
		}
		rel := f
		if strings.HasPrefix(rel, verifRoot()+"/") {
			rel = strings.TrimPrefix(rel, verifRoot()+"/")
		}
		ov[overlayDest(rel, *pkg)] = b
	}
	prog, err := interp.Load(interp.LoadConfig{Dir: repoRoot(), Patterns: []string{*pkg}, Overlay: ov, Env: goEnv()})
	if err != nil {
		fmt.Fprintln(os.Stderr, "load:", err)
		return 2
	}
	fmt.Fprintf(os.Stderr, "loaded in %.1fs\n", prog.LoadS)
	hc := interp.HarnessConfig{Pkg: *pkg, Func: *fn, Workers: *workers, Budget: *budget, Wall: *wall, MaxPaths: *maxPaths, Solver: *solver, Trace: *trace, Params: parseParams(*params)}
	if *initRun != "" {
		hc.InitRun = strings.Split(*initRun, ",")
	}
	hc.Sched = *schedOn
	if *subst != "" {
		hc.Subst = map[string]string{}
		for _, kv := range strings.Split(*subst, ",") {
			p := strings.SplitN(kv, "=", 2)
			hc.Subst[p[0]] = p[1]
		}
	}
	res := prog.Explore(hc)
	printResult(&res)
	if res.EngineErr != "" {
		return 2
	}
	if len(res.Violations) > 0 {
		return 1
	}
	return 0
}

func parseParams(s string) map[string]int {
	out := map[string]int{}
	for _, kv := range strings.Split(s, ",") {
		if kv == "" {
			continue
		}
		p := strings.SplitN(kv, "=", 2)
		var v int
		fmt.Sscanf(p[1], "%d", &v)
		out[p[0]] = v
	}
	return out
}

func addND(ov map[string][]byte) {
	b, err := os.ReadFile(filepath.Join(verifRoot(), "harness/verifnd/nd.go"))
	if err != nil {
		fmt.Fprintln(os.Stderr, err)
		os.Exit(2)
	}
	ov[filepath.Join(repoRoot(), "internal/verifnd/nd.go")] = b
}

func printResult(r *interp.Result) {
	type out struct {
		Harness                                         string
		Paths, Infeasible, Hangs, Unknown, Pending      int
		SymDecisions, Obligations, Discharged           int
		Exhaustive                                      bool
		WallS                                           float64
		Solver                                          interface{}
		Covers                                          map[string]int
		MaxSteps, TotalSteps                            int64
		Violations                                      []interp.Violation
		EngineErr                                       string
		NFuncs                                          int
	}
	o := out{r.Harness, r.Paths, r.Infeasible, r.Hangs, r.Unknown, r.Pending, r.SymDecisions, r.Obligations, r.Discharged,
		r.Exhaustive, r.WallS, r.Solver, r.Covers, r.MaxSteps, r.TotalSteps, r.Violations, r.EngineErr, len(r.Funcs)}
	b, _ := json.MarshalIndent(o, "", " ")
	fmt.Println(string(b))
}

var _ = time.Now
