package main

import (
	"fmt"
	"os"
	"path/filepath"
	"sort"

	"gosx/interp"
)

// gosx replay <ID> <file>: runs one recorded assignment (a counterexample or a
// known-finding witness) against a native build of /repo's working tree with
// the property's harness files overlaid; exit 1 if it fails there.
func cmdReplay(args []string) int {
	if len(args) != 2 {
		fmt.Fprintln(os.Stderr, "usage: gosx replay <ID> <replay.json>")
		return 2
	}
	id, file := args[0], args[1]
	root := verifRoot()
	var cfg checkCfg
	if err := loadJSON(filepath.Join(root, "checks", id+".json"), &cfg); err != nil {
		fmt.Fprintln(os.Stderr, "gosx:", err)
		return 2
	}
	var rf replayFile
	if err := loadJSON(file, &rf); err != nil {
		fmt.Fprintln(os.Stderr, "gosx:", err)
		return 2
	}
	ov := map[string][]byte{}
	addND(ov)
	ovFiles := map[string]string{filepath.Join(repoRoot(), "internal/verifnd/nd.go"): filepath.Join(root, "harness/verifnd/nd.go")}
	pkg := ""
	pkgSet := map[string]bool{}
	for _, h := range cfg.Harnesses {
		pkgSet[h.Pkg] = true
		if h.Func == rf.Harness {
			pkg = h.Pkg
		}
		for _, f := range h.Files {
			src := filepath.Join(root, f)
			b, err := os.ReadFile(src)
			if err != nil {
				fmt.Fprintln(os.Stderr, "gosx:", err)
				return 2
			}
			dst := filepath.Join(pkgDir(h.Pkg), filepath.Base(f))
			ov[dst] = b
			ovFiles[dst] = src
		}
	}
	if pkg == "" {
		fmt.Fprintf(os.Stderr, "gosx: harness %q is not registered for %s\n", rf.Harness, id)
		return 2
	}
	var patterns []string
	for p := range pkgSet {
		patterns = append(patterns, p)
	}
	sort.Strings(patterns)
	prog, err := interp.Load(interp.LoadConfig{Dir: repoRoot(), Patterns: patterns, Overlay: ov, Env: goEnv()})
	if err != nil {
		fmt.Fprintln(os.Stderr, "gosx: load:", err)
		return 2
	}
	scratch, err := os.MkdirTemp("", "gosx-replay-")
	if err != nil {
		fmt.Fprintln(os.Stderr, "gosx:", err)
		return 2
	}
	defer os.RemoveAll(scratch)
	tmp := filepath.Join(scratch, "replay.json")
	writeJSON(tmp, rf)
	nat := &nativeRunner{scratch: scratch, ovFiles: ovFiles, prog: prog, cfg: &cfg}
	res, err := nat.run(pkg, []string{tmp})
	if err != nil {
		fmt.Fprintln(os.Stderr, "gosx:", err)
		return 2
	}
	fmt.Printf("replay %s %s: %s %s\n", id, rf.Harness, res[0].Status, res[0].Msg)
	switch res[0].Status {
	case "assert", "panic", "hang":
		return 1
	}
	return 0
}
