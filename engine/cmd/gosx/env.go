package main

import (
	"bufio"
	"os"
	"os/exec"
	"path/filepath"
	"strings"
)

var cachedEnv []string
var goBin string

// goEnv resolves the Go toolchain /repo's go.mod asks for in the module
// cache and returns an environment that uses it directly (offline).
func goEnv() []string {
	if cachedEnv != nil {
		return cachedEnv
	}
	want := ""
	if f, err := os.Open(filepath.Join(repoRoot(), "go.mod")); err == nil {
		sc := bufio.NewScanner(f)
		gover := ""
		for sc.Scan() {
			l := strings.TrimSpace(sc.Text())
			if strings.HasPrefix(l, "toolchain ") {
				want = strings.TrimSpace(strings.TrimPrefix(l, "toolchain "))
			}
			if strings.HasPrefix(l, "go ") {
				gover = strings.TrimSpace(strings.TrimPrefix(l, "go "))
			}
		}
		f.Close()
		if want == "" && gover != "" {
			want = "go" + gover
			if strings.Count(gover, ".") == 1 {
				want += ".0"
			}
		}
	}
	modcache := os.Getenv("GOMODCACHE")
	if modcache == "" {
		home, _ := os.UserHomeDir()
		gopath := os.Getenv("GOPATH")
		if gopath == "" {
			gopath = filepath.Join(home, "go")
		}
		modcache = filepath.Join(gopath, "pkg/mod")
	}
	env := os.Environ()
	set := func(k, v string) {
		out := env[:0:0]
		for _, e := range env {
			if !strings.HasPrefix(e, k+"=") {
				out = append(out, e)
			}
		}
		env = append(out, k+"="+v)
	}
	goBin = "go"
	if want != "" {
		root := filepath.Join(modcache, "golang.org", "toolchain@v0.0.1-"+want+".linux-amd64")
		if _, err := os.Stat(filepath.Join(root, "bin/go")); err == nil {
			goBin = filepath.Join(root, "bin/go")
			set("PATH", filepath.Join(root, "bin")+":"+os.Getenv("PATH"))
			os.Setenv("PATH", filepath.Join(root, "bin")+":"+os.Getenv("PATH"))
			os.Setenv("GOTOOLCHAIN", "local")
			set("GOTOOLCHAIN", "local")
			set("GOROOT", root)
		}
	}
	if goBin == "go" {
		if p, err := exec.LookPath("go"); err == nil {
			goBin = p
		}
	}
	set("GOFLAGS", "-mod=mod")
	set("GOPROXY", "off")
	set("GOWORK", "off")
	cachedEnv = env
	return env
}
