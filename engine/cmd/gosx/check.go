package main

// gosx check <ID> [--tier quick|thorough]: runs every harness registered for a
// property, replays counterexamples (and a sample of passing paths) against a
// native build of /repo's working tree with the same harness files, handles
// known findings and writes /verif/evidence/<ID>.json.

import (
	"encoding/json"
	"flag"
	"fmt"
	"os"
	"os/exec"
	"path/filepath"
	"sort"
	"strconv"
	"strings"
	"time"

	"gosx/interp"
)

type tierCfg struct {
	Params  map[string]int `json:"params"`
	WallS   int            `json:"wall_s"`
	Workers int            `json:"workers"`
	Skip    bool           `json:"skip"`
}

type harnessCfg struct {
	Pkg      string   `json:"pkg"`
	Files    []string `json:"files"`
	Func     string   `json:"func"`
	Quick    tierCfg  `json:"quick"`
	Thorough tierCfg  `json:"thorough"`
	InitRun  []string `json:"initrun"`
	InitSkip []string `json:"initskip"`
	Covers   []string `json:"covers"`
	Budget   int64    `json:"budget"`
	Solver   string   `json:"solver"`
	TimeoutMs int     `json:"timeout_ms"`
	Bounds   string   `json:"bounds"`
	Twin     string   `json:"twin"` // vacuity twin entry (must be violated)
	Subst    map[string]string `json:"subst"` // program function -> harness stub executed in its place
	NoValidate bool   `json:"no_validate"` // passing paths are not replayed natively (harness runs on stubs only the engine has)
	Sched      bool   `json:"sched"`       // cooperative scheduler: the schedule of goroutines is a symbolic choice
	ModelOnly  bool   `json:"model_only"`  // counterexamples cannot be replayed natively (environment model, e.g. a file system with crash points): they are re-executed concretely in the engine and reported from the model
}

type checkCfg struct {
	ID        string       `json:"id"`
	Harnesses []harnessCfg `json:"harnesses"`
	Stubs     []string     `json:"stubs"`
	Assumes   []string     `json:"assumes"`
	Outside   []string     `json:"outside"`
	Note      string       `json:"note"`
}

type knownFinding struct {
	Property string `json:"property"`
	ID       string `json:"id"`
	Status   string `json:"status"` // "open" or "fixed"
	Harness  string `json:"harness"`
	Pkg      string `json:"pkg"`
	Witness  string `json:"witness"` // replay file relative to /verif
	What     string `json:"what"`
	Commit   string `json:"commit,omitempty"`
}

type nativeResult struct {
	Status   string   `json:"status"` // ok | assert | panic | assume | hang | mismatch
	Msg      string   `json:"msg"`
	Observed []string `json:"observed"`
	Covered  []string `json:"covered"`
}

type replayFile struct {
	Harness string         `json:"harness"`
	Msg     string         `json:"msg"`
	Values  []interp.Draw  `json:"values"`
	Params  map[string]int `json:"params"`
	Panic   bool           `json:"panic,omitempty"`
	Hang    bool           `json:"hang,omitempty"`
	Pos     string         `json:"pos,omitempty"`
}

func loadJSON(path string, v interface{}) error {
	b, err := os.ReadFile(path)
	if err != nil {
		return err
	}
	return json.Unmarshal(b, v)
}

func writeJSON(path string, v interface{}) error {
	b, err := json.MarshalIndent(v, "", " ")
	if err != nil {
		return err
	}
	os.MkdirAll(filepath.Dir(path), 0o755)
	return os.WriteFile(path, append(b, '\n'), 0o644)
}

func cmdCheck(args []string) int {
	fs := flag.NewFlagSet("check", flag.ExitOnError)
	tier := fs.String("tier", "", "quick|thorough")
	only := fs.String("only", "", "run only this harness function")
	noNative := fs.Bool("no-native", false, "skip native replays (debugging)")
	var id string
	if len(args) > 0 && !strings.HasPrefix(args[0], "-") {
		id = args[0]
		args = args[1:]
	}
	fs.Parse(args)
	if id == "" && fs.NArg() > 0 {
		id = fs.Arg(0)
	}
	if *tier == "" {
		*tier = os.Getenv("VERIF_TIER")
	}
	if *tier == "" {
		*tier = "quick"
	}
	seed, _ := strconv.ParseInt(os.Getenv("VERIF_SEED"), 10, 64)
	root := verifRoot()
	t0 := time.Now()
	var cfg checkCfg
	if err := loadJSON(filepath.Join(root, "checks", id+".json"), &cfg); err != nil {
		fmt.Fprintln(os.Stderr, "gosx:", err)
		return 2
	}
	var known []knownFinding
	loadJSON(filepath.Join(root, "known_findings.json"), &known)

	// overlay: nd package + all harness files
	ov := map[string][]byte{}
	addND(ov)
	ovFiles := map[string]string{filepath.Join(repoRoot(), "internal/verifnd/nd.go"): filepath.Join(root, "harness/verifnd/nd.go")}
	pkgSet := map[string]bool{}
	for _, h := range cfg.Harnesses {
		pkgSet[h.Pkg] = true
		for _, f := range h.Files {
			src := filepath.Join(root, f)
			b, err := os.ReadFile(src)
			if err != nil {
				fmt.Fprintln(os.Stderr, "gosx:", err)
				return 2
			}
			dst := overlayDest(f, h.Pkg)
			ov[dst] = b
			ovFiles[dst] = src
		}
	}
	var patterns []string
	for p := range pkgSet {
		patterns = append(patterns, p)
	}
	sort.Strings(patterns)
	prog, err := interp.Load(interp.LoadConfig{Dir: repoRoot(), Patterns: patterns, Overlay: ov, Env: goEnv()})
	if err != nil {
		fmt.Fprintln(os.Stderr, "gosx: load:", err)
		return 2
	}
	fmt.Fprintf(os.Stderr, "[%s] loaded %v in %.1fs\n", id, patterns, prog.LoadS)

	scratch, err := os.MkdirTemp("", "gosx-"+id+"-")
	if err != nil {
		fmt.Fprintln(os.Stderr, "gosx:", err)
		return 2
	}
	defer os.RemoveAll(scratch)
	nat := &nativeRunner{scratch: scratch, ovFiles: ovFiles, prog: prog, cfg: &cfg, disabled: *noNative}

	// known findings: replay witnesses; still failing => suppress that class
	knownParams := map[string]int{}
	var knownLines []string
	for _, k := range known {
		if k.Property != id || k.Status != "open" {
			continue
		}
		still := true
		if k.Witness != "" && !*noNative {
			res, err := nat.run(k.Pkg, []string{filepath.Join(root, k.Witness)})
			if err != nil {
				fmt.Fprintln(os.Stderr, "gosx: known-finding witness replay failed:", err)
				return 2
			}
			still = res[0].Status == "assert" || res[0].Status == "panic" || res[0].Status == "hang"
		}
		if still {
			knownLines = append(knownLines, fmt.Sprintf("KNOWN-FINDING: property=%s %s: %s", id, k.ID, k.What))
			knownParams["known:"+k.ID] = 1
		} else {
			fmt.Fprintf(os.Stderr, "[%s] known finding %s no longer reproduces; its class is checked again\n", id, k.ID)
		}
	}
	for _, l := range knownLines {
		fmt.Println(l)
	}

	type hres struct {
		cfg harnessCfg
		res interp.Result
		tc  tierCfg
		validated, mismatches, unreproduced int
		confirmed []string
		twinOK bool
		twinRun bool
	}
	var results []hres
	exit := 0
	engineErr := ""
	replayDir := filepath.Join(root, "replays", id)
	os.MkdirAll(replayDir, 0o755)
	nviol := 0
	for _, h := range cfg.Harnesses {
		if *only != "" && h.Func != *only {
			continue
		}
		tc := h.Quick
		if *tier == "thorough" {
			tc = h.Thorough
			if tc.Params == nil && tc.WallS == 0 {
				tc = h.Quick
			}
		}
		if tc.Skip {
			continue
		}
		params := map[string]int{}
		for k, v := range tc.Params {
			params[k] = v
		}
		for k, v := range knownParams {
			params[k] = v
		}
		hc := interp.HarnessConfig{Pkg: h.Pkg, Func: h.Func, Budget: h.Budget, Workers: tc.Workers, Solver: h.Solver,
			TimeoutMs: h.TimeoutMs, InitRun: h.InitRun, InitSkip: h.InitSkip, Params: params, Seed: seed, Subst: h.Subst, Sched: h.Sched}
		if tc.WallS > 0 {
			hc.Wall = time.Duration(tc.WallS) * time.Second
		}
		res := prog.Explore(hc)
		hr := hres{cfg: h, res: res, tc: tc}
		fmt.Fprintf(os.Stderr, "[%s] %s: paths=%d infeasible=%d violations=%d pending=%d unknown=%d hangs=%d queries=%d (%.1fs solver) wall=%.1fs exhaustive=%v\n",
			id, h.Func, res.Paths, res.Infeasible, len(res.Violations), res.Pending, res.Unknown+res.UnknownQueries, res.Hangs, res.Solver.Queries, res.Solver.TimeS, res.WallS, res.Exhaustive)
		if res.EngineErr != "" {
			engineErr = h.Func + ": " + res.EngineErr
			fmt.Fprintln(os.Stderr, "ENGINE ERROR:", engineErr)
			results = append(results, hr)
			exit = 2
			continue
		}
		// vacuity: every declared cover point must be reached
		for _, c := range h.Covers {
			if res.Covers[c] == 0 && len(res.Violations) == 0 && res.Pending == 0 {
				engineErr = fmt.Sprintf("%s: vacuous harness: cover point %q never reached", h.Func, c)
				fmt.Fprintln(os.Stderr, "ENGINE ERROR:", engineErr)
				exit = 2
			}
		}
		// vacuity twin: an entry whose final assertion is false must be violated
		if h.Twin != "" {
			hc2 := hc
			hc2.Func = h.Twin
			hc2.MaxViolations = 1
			r2 := prog.Explore(hc2)
			hr.twinRun = true
			hr.twinOK = len(r2.Violations) > 0
			if !hr.twinOK {
				engineErr = fmt.Sprintf("%s: vacuity twin %s was not violated (%s)", h.Func, h.Twin, r2.EngineErr)
				fmt.Fprintln(os.Stderr, "ENGINE ERROR:", engineErr)
				exit = 2
			}
		}
		// counterexamples: replay natively, report only what reproduces
		var files []string
		for _, v := range res.Violations {
			nviol++
			p := filepath.Join(replayDir, fmt.Sprintf("%s-%d.json", h.Func, nviol))
			writeJSON(p, replayFile{Harness: v.Harness, Msg: v.Msg, Values: v.Draws, Params: params, Panic: v.Panic, Hang: v.Hang, Pos: v.Pos})
			files = append(files, p)
		}
		if len(files) > 0 && h.ModelOnly {
			for j := range files {
				hr.confirmed = append(hr.confirmed, files[j])
				fmt.Printf("VIOLATION property=%s replay=%s\n", id, files[j])
				fmt.Fprintf(os.Stderr, "[%s] %s: %s (model counterexample; the environment model of this harness has no native counterpart)\n", id, h.Func, res.Violations[j].Msg)
				if exit == 0 {
					exit = 1
				}
			}
		} else if len(files) > 0 {
			nres, err := nat.run(h.Pkg, files)
			if err != nil {
				engineErr = "native replay: " + err.Error()
				fmt.Fprintln(os.Stderr, "ENGINE ERROR:", engineErr)
				exit = 2
			} else {
				for j, r := range nres {
					switch r.Status {
					case "assert", "panic", "hang":
						hr.confirmed = append(hr.confirmed, files[j])
						fmt.Printf("VIOLATION property=%s replay=%s\n", id, files[j])
						fmt.Fprintf(os.Stderr, "[%s] %s: %s (native: %s %s)\n", id, h.Func, res.Violations[j].Msg, r.Status, r.Msg)
						if exit == 0 {
							exit = 1
						}
					default:
						hr.unreproduced++
						fmt.Fprintf(os.Stderr, "[%s] %s: counterexample %s did NOT reproduce natively (%s %s): engine/stub imprecision, not reported as a violation\n", id, h.Func, files[j], r.Status, r.Msg)
						// the engine followed a path the real code does not take, and the exploration
						// stops after a few counterexamples: what was explored is not a verdict
						engineErr = fmt.Sprintf("%s: a counterexample of the engine did not reproduce natively (engine imprecision; the run is inconclusive)", h.Func)
						if exit == 0 {
							exit = 2
						}
					}
				}
			}
		}
		// translation validation: replay a sample of passing paths natively
		var sfiles []string
		var samples []interp.PathSample
		for j, s := range res.Samples {
			if j >= 8 {
				break
			}
			p := filepath.Join(scratch, fmt.Sprintf("sample-%s-%d.json", h.Func, j))
			writeJSON(p, replayFile{Harness: h.Func, Values: s.Draws, Params: params})
			sfiles = append(sfiles, p)
			samples = append(samples, s)
		}
		if len(sfiles) > 0 && !*noNative && !h.NoValidate {
			nres, err := nat.run(h.Pkg, sfiles)
			if err != nil {
				engineErr = "native replay: " + err.Error()
				fmt.Fprintln(os.Stderr, "ENGINE ERROR:", engineErr)
				exit = 2
			} else {
				for j, r := range nres {
					if r.Status == "ok" && equalStrings(r.Observed, samples[j].Observed) {
						hr.validated++
					} else {
						hr.mismatches++
						fmt.Fprintf(os.Stderr, "[%s] %s: translation-validation mismatch on a passing path: native %s %s observed=%v engine=%v values=%v\n",
							id, h.Func, r.Status, r.Msg, r.Observed, samples[j].Observed, samples[j].Draws)
					}
				}
				if hr.mismatches > 0 {
					engineErr = fmt.Sprintf("%s: %d passing paths behave differently natively", h.Func, hr.mismatches)
					exit = 2
				}
			}
		}
		results = append(results, hr)
	}

	// ---- evidence
	type hev struct {
		Func        string         `json:"harness"`
		Pkg         string         `json:"pkg"`
		Bounds      string         `json:"bounds"`
		Params      map[string]int `json:"params"`
		Paths       int            `json:"paths"`
		Infeasible  int            `json:"infeasible_paths"`
		Decisions   int            `json:"symbolic_forks"`
		DomDecided  int            `json:"branches_decided_by_byte_domain"`
		Obligations int            `json:"assertions_checked"`
		Discharged  int            `json:"assertions_discharged_unsat"`
		Pending     int            `json:"pending_paths"`
		Unknown     int            `json:"solver_unknown"`
		Hangs       int            `json:"budget_exceeded"`
		Exhaustive  bool           `json:"exhaustive"`
		Covers      map[string]int `json:"cover_points"`
		Solver      interface{}    `json:"solver"`
		WallS       float64        `json:"wall_s"`
		Validated   int            `json:"passing_paths_replayed_natively"`
		Confirmed   []string       `json:"confirmed_violations"`
		Unreproduced int           `json:"unreproduced_cex"`
		Twin        string         `json:"vacuity_twin,omitempty"`
		MaxSteps    int64          `json:"max_instructions_per_path"`
	}
	var hevs []hev
	funcs := map[string]bool{}
	var samples []interface{}
	states, transitions, validated, obligations, discharged, violations := 0, 0, 0, 0, 0, 0
	queries := 0
	solverS := 0.0
	exhaustive := len(results) > 0
	for _, r := range results {
		tw := ""
		if r.twinRun {
			tw = fmt.Sprintf("%s violated=%v", r.cfg.Twin, r.twinOK)
		}
		hevs = append(hevs, hev{r.cfg.Func, r.cfg.Pkg, r.cfg.Bounds, r.tc.Params, r.res.Paths, r.res.Infeasible, r.res.SymDecisions, r.res.DomDecided,
			r.res.Obligations, r.res.Discharged, r.res.Pending, r.res.Unknown + r.res.UnknownQueries, r.res.Hangs, r.res.Exhaustive,
			r.res.Covers, r.res.Solver, r.res.WallS, r.validated, r.confirmed, r.unreproduced, tw, r.res.MaxSteps})
		for f := range r.res.Funcs {
			if strings.Contains(f, "oss.terrastruct.com/") && !strings.Contains(f, "verifnd") {
				funcs[f] = true
			}
		}
		for j, s := range r.res.Samples {
			if j < 3 {
				samples = append(samples, map[string]interface{}{"harness": s.Harness, "inputs": drawSummary(s.Draws), "decisions": s.Decisions, "instructions": s.Steps})
			}
		}
		states += r.res.Paths
		transitions += r.res.SymDecisions + r.res.DomDecided
		validated += r.validated
		obligations += r.res.Obligations
		discharged += r.res.Discharged
		violations += len(r.confirmed)
		queries += r.res.Solver.Queries
		solverS += r.res.Solver.TimeS
		if !r.res.Exhaustive {
			exhaustive = false
		}
	}
	var flist []string
	for f := range funcs {
		flist = append(flist, f)
	}
	sort.Strings(flist)
	if len(samples) == 0 {
		samples = append(samples, "no path completed")
	}
	if states == 0 {
		states = 0
	}
	ev := map[string]interface{}{
		"property_id": id,
		"tier":        *tier,
		"seed":        seed,
		"level":       "model_checking",
		"coverage": map[string]interface{}{
			"states":                        states,
			"transitions":                   transitions,
			"traces_validated_against_impl": validated,
			"samples":                       samples,
			"exhaustive":                    exhaustive && exit == 0,
			"evaluations":                   states,
			"distinct_nontrivial":           transitions,
			"rule":                          "one evaluation = one feasible path of the harness through the real code (a class of inputs sharing all branch outcomes), enumerated exhaustively by the solver within the stated bounds; non-trivial = symbolic branch decisions (forks) taken",
			"obligations":                   obligations,
			"discharged":                    discharged,
			"functions_encoded":             flist,
			"harnesses":                     hevs,
			"solver_queries":                queries,
			"solver_time_s":                 solverS,
			"stubs":                         cfg.Stubs,
			"outside_bounds":                cfg.Outside,
			"known_findings":                knownLines,
			"engine_error":                  engineErr,
			"technique":                     "symbolic execution of go/ssa of /repo (regenerated this run) with z3 deciding every symbolic branch and assertion; counterexamples replayed natively",
		},
		"assumptions": append(append([]string{}, cfg.Assumes...), "engine: gosx interpreter semantics of Go/SSA, intrinsics listed under stubs, z3 4.8.12"),
		"wall_s":      time.Since(t0).Seconds(),
		"violations":  violations,
	}
	if err := writeJSON(filepath.Join(root, "evidence", id+".json"), ev); err != nil {
		fmt.Fprintln(os.Stderr, "gosx:", err)
		return 2
	}
	fmt.Fprintf(os.Stderr, "[%s] tier=%s exit=%d paths=%d obligations=%d/%d validated=%d wall=%.1fs\n", id, *tier, exit, states, discharged, obligations, validated, time.Since(t0).Seconds())
	return exit
}

// overlayDest maps a harness file to its virtual place in /repo: a file
// harness/<dir...>/x.go goes to /repo/<dir...>/x.go when that directory exists
// (so one harness may bring helper files for other packages), otherwise into
// the directory of the harness's own package.
func overlayDest(f, pkg string) string {
	rel := filepath.ToSlash(f)
	if strings.HasPrefix(rel, "harness/") {
		d := filepath.Dir(strings.TrimPrefix(rel, "harness/"))
		if st, err := os.Stat(filepath.Join(repoRoot(), d)); err == nil && st.IsDir() && d != "." {
			return filepath.Join(repoRoot(), d, filepath.Base(f))
		}
	}
	return filepath.Join(pkgDir(pkg), filepath.Base(f))
}

func equalStrings(a, b []string) bool {
	if len(a) != len(b) {
		return false
	}
	for i := range a {
		if a[i] != b[i] {
			return false
		}
	}
	return true
}

func drawSummary(ds []interp.Draw) []string {
	var out []string
	for _, d := range ds {
		out = append(out, fmt.Sprintf("%s=%d", d.Name, d.V))
		if len(out) >= 40 {
			out = append(out, "...")
			break
		}
	}
	return out
}

// ---- native replay

type nativeRunner struct {
	scratch  string
	ovFiles  map[string]string
	prog     *interp.Program
	cfg      *checkCfg
	bins     map[string]string
	disabled bool
}

func (n *nativeRunner) build(pkg string) (string, error) {
	if n.bins == nil {
		n.bins = map[string]string{}
	}
	if b, ok := n.bins[pkg]; ok {
		return b, nil
	}
	sp := n.prog.Prog.ImportedPackage(pkg)
	if sp == nil {
		return "", fmt.Errorf("package %s not loaded", pkg)
	}
	var entries []string
	for _, h := range n.cfg.Harnesses {
		if h.Pkg == pkg {
			entries = append(entries, h.Func)
			if h.Twin != "" {
				entries = append(entries, h.Twin)
			}
		}
	}
	sort.Strings(entries)
	var sb strings.Builder
	fmt.Fprintf(&sb, "package %s\n\n", sp.Pkg.Name())
	sb.WriteString(`import (
	"encoding/json"
	"fmt"
	"os"
	"strings"
	"testing"
	"time"

	nd "oss.terrastruct.com/d2/internal/verifnd"
)

var verifEntries = map[string]func(){
`)
	seen := map[string]bool{}
	for _, e := range entries {
		if !seen[e] {
			seen[e] = true
			fmt.Fprintf(&sb, "\t%q: %s,\n", e, e)
		}
	}
	sb.WriteString(`}

type verifResult struct {
	Status   string   ` + "`json:\"status\"`" + `
	Msg      string   ` + "`json:\"msg\"`" + `
	Observed []string ` + "`json:\"observed\"`" + `
	Covered  []string ` + "`json:\"covered\"`" + `
}

func verifRunOne(path string) (res verifResult) {
	if err := nd.Load(path); err != nil {
		return verifResult{Status: "error", Msg: err.Error()}
	}
	fn := verifEntries[nd.Harness()]
	if fn == nil {
		return verifResult{Status: "error", Msg: "unknown harness " + nd.Harness()}
	}
	done := make(chan verifResult, 1)
	go func() {
		var r verifResult
		defer func() {
			if p := recover(); p != nil {
				switch p := p.(type) {
				case nd.AssertFailed:
					r.Status, r.Msg = "assert", p.Msg
				case nd.AssumeFailed:
					r.Status, r.Msg = "assume", p.Where
				default:
					r.Status, r.Msg = "panic", fmt.Sprint(p)
				}
			}
			r.Observed, r.Covered = nd.Observed, nd.Covered
			done <- r
		}()
		fn()
		r.Status = "ok"
	}()
	select {
	case r := <-done:
		return r
	case <-time.After(20 * time.Second):
		return verifResult{Status: "hang", Msg: "no result after 20s"}
	}
}

func TestVerifReplay(t *testing.T) {
	list := strings.Fields(os.Getenv("GOSX_REPLAY_LIST"))
	for _, p := range list {
		if _, err := os.Stat(p + ".out"); err == nil {
			continue
		}
		r := verifRunOne(p)
		b, _ := json.Marshal(r)
		os.WriteFile(p+".out", b, 0o644)
		if r.Status == "hang" {
			os.Exit(3) // the runaway goroutine cannot be stopped; the driver restarts us
		}
	}
}
`)
	testFile := filepath.Join(n.scratch, "replay_"+sp.Pkg.Name()+"_test.go")
	if err := os.WriteFile(testFile, []byte(sb.String()), 0o644); err != nil {
		return "", err
	}
	repl := map[string]string{}
	for k, v := range n.ovFiles {
		repl[k] = v
	}
	repl[filepath.Join(pkgDir(pkg), "zz_verif_replay_test.go")] = testFile
	ovPath := filepath.Join(n.scratch, "overlay_"+sp.Pkg.Name()+".json")
	writeJSON(ovPath, map[string]interface{}{"Replace": repl})
	bin := filepath.Join(n.scratch, sp.Pkg.Name()+".test")
	cmd := exec.Command(goBin, "test", "-c", "-vet=off", "-o", bin, "-overlay", ovPath, pkg)
	cmd.Dir = repoRoot()
	cmd.Env = goEnv()
	out, err := cmd.CombinedOutput()
	if err != nil {
		return "", fmt.Errorf("go test -c %s: %v\n%s", pkg, err, out)
	}
	n.bins[pkg] = bin
	return bin, nil
}

// run replays the given files natively and returns one result per file.
func (n *nativeRunner) run(pkg string, files []string) ([]nativeResult, error) {
	if n.disabled {
		out := make([]nativeResult, len(files))
		for i := range out {
			out[i].Status = "assert"
			out[i].Msg = "(native replay disabled)"
		}
		return out, nil
	}
	bin, err := n.build(pkg)
	if err != nil {
		return nil, err
	}
	for _, f := range files {
		os.Remove(f + ".out")
	}
	for attempt := 0; attempt <= len(files); attempt++ {
		cmd := exec.Command(bin, "-test.run", "^TestVerifReplay$", "-test.timeout", "600s")
		cmd.Dir = pkgDir(pkg)
		cmd.Env = append(goEnv(), "GOSX_REPLAY_LIST="+strings.Join(files, " "))
		out, err := cmd.CombinedOutput()
		missing := false
		for _, f := range files {
			if _, e := os.Stat(f + ".out"); e != nil {
				missing = true
			}
		}
		if !missing {
			break
		}
		if err == nil {
			return nil, fmt.Errorf("native replay produced no result:\n%s", out)
		}
		if ee, ok := err.(*exec.ExitError); !ok || ee.ExitCode() != 3 {
			// crashed hard (fatal error / stack overflow): attribute to the first file without a result
			for _, f := range files {
				if _, e := os.Stat(f + ".out"); e != nil {
					msg := string(out)
					if len(msg) > 400 {
						msg = msg[:400]
					}
					b, _ := json.Marshal(nativeResult{Status: "panic", Msg: "process died: " + msg})
					os.WriteFile(f+".out", b, 0o644)
					break
				}
			}
		}
	}
	res := make([]nativeResult, len(files))
	for i, f := range files {
		if err := loadJSON(f+".out", &res[i]); err != nil {
			return nil, err
		}
		os.Remove(f + ".out")
	}
	return res, nil
}
