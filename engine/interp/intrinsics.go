package interp

// Intrinsics: functions the interpreter cannot (or should not) execute from
// their SSA: unsafe/assembly-backed standard library pieces, exact summaries
// that avoid needless forking, sequential semantics for sync primitives.
// An intrinsic may decline (ok=false) and the SSA body is interpreted.

import (
	"fmt"
	"go/token"
	"go/types"
	"math"
	"strings"

	"golang.org/x/tools/go/ssa"
)

type intrinsicFn func(fr *frame, args []value) (value, bool)

var intrinsics = map[string]intrinsicFn{}

// slogAttr: attribute constructors of log/slog give an empty attribute (logging has empty bodies).
func slogAttr(fr *frame, a []value) (value, bool) {
	return structure{"", structure{array{}, uint64(0), iface{}}}, true
}

func init() {
	for k, v := range map[string]intrinsicFn{
		// strings.Builder
		"(*strings.Builder).WriteString": sbWriteString,
		"(*strings.Builder).WriteByte":   sbWriteByte,
		"(*strings.Builder).WriteRune":   sbWriteRune,
		"(*strings.Builder).Write":       sbWrite,
		"(*strings.Builder).String":      sbString,
		"(*strings.Builder).Len":         sbLen,
		"(*strings.Builder).Cap":         sbLen,
		"(*strings.Builder).Grow":        func(fr *frame, a []value) (value, bool) { return nil, true },
		"(*strings.Builder).Reset":       sbReset,
		"(*strings.Builder).copyCheck":   func(fr *frame, a []value) (value, bool) { return nil, true },
		"strings.Clone":                  func(fr *frame, a []value) (value, bool) { return a[0], true },
		"unique.Make[string]":            nil,

		// internal/bytealg
		"internal/bytealg.IndexByte":           baIndexByte,
		"internal/bytealg.IndexByteString":     baIndexByte,
		"internal/bytealg.LastIndexByte":       baLastIndexByte,
		"internal/bytealg.LastIndexByteString": baLastIndexByte,
		"internal/bytealg.Count":               baCount,
		"internal/bytealg.CountString":         baCount,
		"internal/bytealg.Equal":               baEqual,
		"internal/bytealg.Compare":             baCompare,
		"internal/bytealg.CompareString":       baCompare,
		"internal/bytealg.Index":               baIndex,
		"internal/bytealg.IndexString":         baIndex,
		"internal/bytealg.MakeNoZero":          baMakeNoZero,
		"internal/stringslite.Clone":           func(fr *frame, a []value) (value, bool) { return a[0], true },
		"bytes.Equal":                          baEqual,
		"bytes.Compare":                        baCompare,
		"strings.Compare":                      baCompare,
		"internal/bytealg.Cutover":             func(fr *frame, a []value) (value, bool) { return 1 << 30, true },

		// sort
		"sort.Slice":       sortSlice,
		"sort.SliceStable": sortSlice,

		// sync (sequential semantics)
		"(*sync.Mutex).Lock":      nop,
		"(*sync.Mutex).Unlock":    nop,
		"(*sync.Mutex).TryLock":   func(fr *frame, a []value) (value, bool) { return true, true },
		"(*sync.RWMutex).Lock":    nop,
		"(*sync.RWMutex).Unlock":  nop,
		"(*sync.RWMutex).RLock":   nop,
		"(*sync.RWMutex).RUnlock": nop,
		"(*sync.Once).Do":         onceDo,
		"(*sync.Pool).Get":        poolGet,
		"(*sync.Pool).Put":        nop,
		"runtime.SetFinalizer":    nop,
		// error annotation frames (program counters are environment)
		"golang.org/x/xerrors.Caller": func(fr *frame, a []value) (value, bool) {
			return structure{array{uintptr(0), uintptr(0), uintptr(0)}}, true
		},
		"(golang.org/x/xerrors.Frame).Format":   nop,
		"(golang.org/x/xerrors.Frame).location": func(fr *frame, a []value) (value, bool) { return tuple{"", "", 0}, true },
		"runtime.KeepAlive":       nop,
		// logging gets empty bodies (formatting is not the subject of any check)
		"oss.terrastruct.com/d2/lib/log.Debug": nop,
		"oss.terrastruct.com/d2/lib/log.Info":  nop,
		"oss.terrastruct.com/d2/lib/log.Warn":  nop,
		"oss.terrastruct.com/d2/lib/log.Error": nop,
		"log/slog.Any":     slogAttr,
		"log/slog.Int":     slogAttr,
		"log/slog.Int64":   slogAttr,
		"log/slog.String":  slogAttr,
		"log/slog.Float64": slogAttr,
		"log/slog.Bool":    slogAttr,
		"oss.terrastruct.com/d2/lib/log.Leveled": func(fr *frame, a []value) (value, bool) { return a[0], true },

		// sync/atomic
		"sync/atomic.LoadInt32":    atomicLoad,
		"sync/atomic.LoadInt64":    atomicLoad,
		"sync/atomic.LoadUint32":   atomicLoad,
		"sync/atomic.LoadUint64":   atomicLoad,
		"sync/atomic.LoadUintptr":  atomicLoad,
		"sync/atomic.LoadPointer":  atomicLoad,
		"sync/atomic.StoreInt32":   atomicStore,
		"sync/atomic.StoreInt64":   atomicStore,
		"sync/atomic.StoreUint32":  atomicStore,
		"sync/atomic.StoreUint64":  atomicStore,
		"sync/atomic.StoreUintptr": atomicStore,
		"sync/atomic.StorePointer": atomicStore,
		"sync/atomic.AddInt32":     atomicAdd,
		"sync/atomic.AddInt64":     atomicAdd,
		"sync/atomic.AddUint32":    atomicAdd,
		"sync/atomic.AddUint64":    atomicAdd,
		"sync/atomic.AddUintptr":   atomicAdd,
		"sync/atomic.SwapInt32":    atomicSwap,
		"sync/atomic.SwapInt64":    atomicSwap,
		"sync/atomic.SwapUint32":   atomicSwap,
		"sync/atomic.SwapUint64":   atomicSwap,
		"sync/atomic.SwapPointer":  atomicSwap,
		"sync/atomic.CompareAndSwapInt32":   atomicCAS,
		"sync/atomic.CompareAndSwapInt64":   atomicCAS,
		"sync/atomic.CompareAndSwapUint32":  atomicCAS,
		"sync/atomic.CompareAndSwapUint64":  atomicCAS,
		"sync/atomic.CompareAndSwapUintptr": atomicCAS,
		"sync/atomic.CompareAndSwapPointer": atomicCAS,

		// math
		"math.Ceil":        mathRound(1, math.Ceil),
		"math.Floor":       mathRound(2, math.Floor),
		"math.Trunc":       mathRound(3, math.Trunc),
		"math.Round":       mathRound(4, math.Round),
		"math.RoundToEven": mathRound(0, math.RoundToEven),
		"math.Abs":         mathAbs,
		"math.Max":         mathMax,
		"math.Min":         mathMin,
		"math.Sqrt":        mathSqrt,
		"math.IsNaN":       mathIsNaN,
		"math.IsInf":       mathIsInf,
		"math.Inf": func(fr *frame, a []value) (value, bool) {
			if s, ok := a[0].(int); ok {
				return math.Inf(s), true
			}
			return nil, false
		},
		"math.NaN":    func(fr *frame, a []value) (value, bool) { return math.NaN(), true },
		"math.Mod":    math2(math.Mod),
		"math.Pow":    math2(math.Pow),
		"math.Atan2":  math2(math.Atan2),
		"math.Hypot":  math2(math.Hypot),
		"math.Sin":    math1(math.Sin),
		"math.Cos":    math1(math.Cos),
		"math.Tan":    math1(math.Tan),
		"math.Atan":   math1(math.Atan),
		"math.Asin":   math1(math.Asin),
		"math.Acos":   math1(math.Acos),
		"math.Exp":    math1(math.Exp),
		"math.Log":    math1(math.Log),
		"math.Log2":   math1(math.Log2),
		"math.Log10":  math1(math.Log10),
		"math.Cbrt":   math1(math.Cbrt),
		"math.Signbit": func(fr *frame, a []value) (value, bool) {
			if f, ok := a[0].(float64); ok {
				return math.Signbit(f), true
			}
			return nil, false
		},
		"math.Float64bits": func(fr *frame, a []value) (value, bool) {
			if f, ok := a[0].(float64); ok {
				return math.Float64bits(f), true
			}
			panic(engineError{"math.Float64bits on symbolic float" + callerChain(fr)})
		},
		"math.Float64frombits": func(fr *frame, a []value) (value, bool) {
			if f, ok := a[0].(uint64); ok {
				return math.Float64frombits(f), true
			}
			s := a[0].(sym)
			return mkSym(s.t.tt.op(oFpFromBits, fpSort, 0, 0, s.t), types.Float64), true
		},
	} {
		if v != nil {
			intrinsics[k] = v
		}
	}
}

func nop(fr *frame, a []value) (value, bool) { return nil, true }

// ---- strings.Builder: struct{addr *Builder; buf []byte}

func sbBuf(a value) *value {
	return &(*a.(*value)).(structure)[1]
}

func sbAppend(fr *frame, recv value, bs []value) {
	p := sbBuf(recv)
	old, _ := (*p).([]value)
	nb := make([]value, 0, len(old)+len(bs))
	nb = append(nb, old...)
	nb = append(nb, bs...)
	fr.i.logStore(p)
	*p = nb
}

func sbWriteString(fr *frame, a []value) (value, bool) {
	s, _ := strBytes(a[1])
	sbAppend(fr, a[0], s)
	return tuple{len(s), iface{}}, true
}

func sbWrite(fr *frame, a []value) (value, bool) {
	s := a[1].([]value)
	sbAppend(fr, a[0], s)
	return tuple{len(s), iface{}}, true
}

func sbWriteByte(fr *frame, a []value) (value, bool) {
	sbAppend(fr, a[0], []value{a[1]})
	return iface{}, true
}

func sbWriteRune(fr *frame, a []value) (value, bool) {
	var enc []value
	if r, ok := a[1].(int32); ok {
		for _, b := range []byte(string(r)) {
			enc = append(enc, b)
		}
	} else {
		enc = fr.i.callNamed("unicode/utf8", "AppendRune", []value(nil), a[1]).([]value)
	}
	sbAppend(fr, a[0], enc)
	return tuple{len(enc), iface{}}, true
}

func sbString(fr *frame, a []value) (value, bool) {
	b, _ := (*sbBuf(a[0])).([]value)
	return bytesToStr(b), true
}

func sbLen(fr *frame, a []value) (value, bool) {
	b, _ := (*sbBuf(a[0])).([]value)
	return len(b), true
}

func sbReset(fr *frame, a []value) (value, bool) {
	p := sbBuf(a[0])
	fr.i.logStore(p)
	*p = []value(nil)
	return nil, true
}

// ---- bytealg

func seqOf(v value) []value {
	switch v := v.(type) {
	case []value:
		return v
	case string, symstr:
		s, _ := strBytes(v)
		return s
	}
	panic(fmt.Sprintf("seqOf %T", v))
}

func byteEq(fr *frame, a, b value) bool {
	if !isSymbolic(a) && !isSymbolic(b) {
		return a.(uint8) == b.(uint8)
	}
	return fr.i.truth(symBinop(token.EQL, a, b))
}

func baIndexByte(fr *frame, a []value) (value, bool) {
	s := seqOf(a[0])
	for j, b := range s {
		if byteEq(fr, b, a[1]) {
			return j, true
		}
	}
	return -1, true
}

func baLastIndexByte(fr *frame, a []value) (value, bool) {
	s := seqOf(a[0])
	for j := len(s) - 1; j >= 0; j-- {
		if byteEq(fr, s[j], a[1]) {
			return j, true
		}
	}
	return -1, true
}

func baCount(fr *frame, a []value) (value, bool) {
	s := seqOf(a[0])
	var res value = int(0)
	for _, b := range s {
		if !isSymbolic(b) && !isSymbolic(a[1]) {
			if b.(uint8) == a[1].(uint8) {
				res = binop(token.ADD, nil, res, int(1))
			}
			continue
		}
		eq := symBinop(token.EQL, b, a[1])
		if c, ok := eq.(bool); ok {
			if c {
				res = binop(token.ADD, nil, res, int(1))
			}
			continue
		}
		tt := eq.(sym).t.tt
		one := mkSym(tt.ite(eq.(sym).t, tt.bvConst(1, 64), tt.bvConst(0, 64)), types.Int)
		res = binop(token.ADD, nil, res, one)
	}
	return res, true
}

func baEqual(fr *frame, a []value) (value, bool) {
	x, y := seqOf(a[0]), seqOf(a[1])
	return symStrEq(symstr(x), symstr(y)), true
}

func baCompare(fr *frame, a []value) (value, bool) {
	x, y := seqOf(a[0]), seqOf(a[1])
	if !anySym(x, 1) && !anySym(y, 1) {
		return strings.Compare(normStr(x).(string), normStr(y).(string)), true
	}
	lt := symStrLess(symstr(x), symstr(y), false)
	eq := symStrEq(symstr(x), symstr(y))
	tt := tableOf(symstr(x), symstr(y))
	res := tt.ite(termOf(tt, lt), tt.bvConst(^uint64(0), 64), tt.ite(termOf(tt, eq), tt.bvConst(0, 64), tt.bvConst(1, 64)))
	return mkSym(res, types.Int), true
}

func baIndex(fr *frame, a []value) (value, bool) {
	x, y := seqOf(a[0]), seqOf(a[1])
	for j := 0; j+len(y) <= len(x); j++ {
		if fr.i.truth(symStrEq(symstr(x[j:j+len(y)]), symstr(y))) {
			return j, true
		}
	}
	return -1, true
}

func baMakeNoZero(fr *frame, a []value) (value, bool) {
	n := fr.i.concreteInt(a[0])
	out := make([]value, n)
	for j := range out {
		out[j] = uint8(0)
	}
	return out, true
}

// ---- sort.Slice: stable insertion sort driven by the interpreted less.

func sortSlice(fr *frame, a []value) (value, bool) {
	s := a[0].(iface).v.([]value)
	less := a[1]
	lessAt := func(x, y int) bool {
		return fr.i.truth(call(fr.i, fr, token.NoPos, less, []value{x, y}))
	}
	// insertion sort by adjacent swaps so that less(i,j) sees positions in s
	for x := 1; x < len(s); x++ {
		for y := x; y > 0 && lessAt(y, y-1); y-- {
			fr.i.logStore(&s[y])
			fr.i.logStore(&s[y-1])
			s[y], s[y-1] = s[y-1], s[y]
		}
	}
	return nil, true
}

// ---- sync

func onceDo(fr *frame, a []value) (value, bool) {
	// Once{_ noCopy; done atomic.Uint32; m Mutex} — locate the done field by type name.
	st := (*a[0].(*value)).(structure)
	t := mustDeref(fr.fn.Params[0].Type()).Underlying().(*types.Struct)
	for j := 0; j < t.NumFields(); j++ {
		if t.Field(j).Name() == "done" {
			// atomic.Uint32 = struct{_ noCopy; v uint32} or plain uint32
			cell := &st[j]
			if inner, ok := (*cell).(structure); ok {
				cell = &inner[len(inner)-1]
			}
			if asInt64(*cell) != 0 {
				return nil, true
			}
			fr.i.logStore(cell)
			*cell = uint32(1)
			call(fr.i, fr, token.NoPos, a[1], nil)
			return nil, true
		}
	}
	panic(engineError{"sync.Once layout not recognised"})
}

func poolGet(fr *frame, a []value) (value, bool) {
	st := (*a[0].(*value)).(structure)
	t := mustDeref(fr.fn.Params[0].Type()).Underlying().(*types.Struct)
	for j := 0; j < t.NumFields(); j++ {
		if t.Field(j).Name() == "New" {
			switch f := st[j].(type) {
			case *closure:
				if f != nil {
					return call(fr.i, fr, token.NoPos, f, nil), true
				}
			case *ssa.Function:
				if f != nil {
					return call(fr.i, fr, token.NoPos, f, nil), true
				}
			}
		}
	}
	return iface{}, true
}

func atomicLoad(fr *frame, a []value) (value, bool) {
	return *a[0].(*value), true
}

func atomicStore(fr *frame, a []value) (value, bool) {
	p := a[0].(*value)
	fr.i.logStore(p)
	*p = a[1]
	return nil, true
}

func atomicAdd(fr *frame, a []value) (value, bool) {
	p := a[0].(*value)
	fr.i.logStore(p)
	*p = binop(token.ADD, nil, *p, a[1])
	return *p, true
}

func atomicSwap(fr *frame, a []value) (value, bool) {
	p := a[0].(*value)
	old := *p
	fr.i.logStore(p)
	*p = a[1]
	return old, true
}

func atomicCAS(fr *frame, a []value) (value, bool) {
	p := a[0].(*value)
	if fr.i.truth(eqValue(fr.fn.Params[1].Type(), *p, a[1])) {
		fr.i.logStore(p)
		*p = a[2]
		return true, true
	}
	return false, true
}

// ---- math

func mathRound(mode int, native func(float64) float64) intrinsicFn {
	return func(fr *frame, a []value) (value, bool) {
		if f, ok := a[0].(float64); ok {
			return native(f), true
		}
		return floatRound(a[0], mode), true
	}
}

func mathAbs(fr *frame, a []value) (value, bool) {
	if f, ok := a[0].(float64); ok {
		return math.Abs(f), true
	}
	return floatAbs(a[0]), true
}

func mathMax(fr *frame, a []value) (value, bool) {
	x, ok1 := a[0].(float64)
	y, ok2 := a[1].(float64)
	if ok1 && ok2 {
		return math.Max(x, y), true
	}
	return floatMinMax(a[0], a[1], true), true
}

func mathMin(fr *frame, a []value) (value, bool) {
	x, ok1 := a[0].(float64)
	y, ok2 := a[1].(float64)
	if ok1 && ok2 {
		return math.Min(x, y), true
	}
	return floatMinMax(a[0], a[1], false), true
}

func mathSqrt(fr *frame, a []value) (value, bool) {
	if f, ok := a[0].(float64); ok {
		return math.Sqrt(f), true
	}
	return floatSqrt(a[0]), true
}

func mathIsNaN(fr *frame, a []value) (value, bool) {
	if f, ok := a[0].(float64); ok {
		return math.IsNaN(f), true
	}
	return floatIsNaN(a[0]), true
}

func mathIsInf(fr *frame, a []value) (value, bool) {
	f, ok1 := a[0].(float64)
	s, ok2 := a[1].(int)
	if !ok2 {
		panic(engineError{"math.IsInf with symbolic sign"})
	}
	if ok1 {
		return math.IsInf(f, s), true
	}
	return floatIsInf(a[0], s), true
}

func math1(native func(float64) float64) intrinsicFn {
	return func(fr *frame, a []value) (value, bool) {
		if f, ok := a[0].(float64); ok {
			return native(f), true
		}
		panic(engineError{"transcendental math function on symbolic float" + callerChain(fr)})
	}
}

func math2(native func(float64, float64) float64) intrinsicFn {
	return func(fr *frame, a []value) (value, bool) {
		x, ok1 := a[0].(float64)
		y, ok2 := a[1].(float64)
		if ok1 && ok2 {
			return native(x, y), true
		}
		panic(engineError{"transcendental math function on symbolic float" + callerChain(fr)})
	}
}
