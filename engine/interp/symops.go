package interp

// Symbolic-aware pieces of the instruction set: element references at a
// symbolic index, string/rune conversions, iteration, channels.

import (
	"fmt"
	"go/token"
	"go/types"
	"unicode/utf8"

	"golang.org/x/tools/go/ssa"
)

// symref is the address elems[idx] for a symbolic idx.
type symref struct {
	elems []value
	idx   sym
}

// norm widens the index to 64 bits so lengths are representable.
func (r symref) norm() symref {
	if r.idx.t.sort.w == 64 {
		return r
	}
	if kindSigned(r.idx.k) {
		return symref{r.elems, symConvNum(r.idx, types.Int).(sym)}
	}
	return symref{r.elems, symConvNum(r.idx, types.Uint).(sym)}
}

func (r symref) boundsCheck(in *interpreter) {
	tt := r.idx.t.tt
	w := r.idx.t.sort.w
	var inb *Term
	n := tt.bvConst(uint64(len(r.elems)), w)
	if kindSigned(r.idx.k) {
		inb = tt.and(tt.bin(oBvSLe, tt.bvConst(0, w), r.idx.t), tt.bin(oBvSLt, r.idx.t, n))
	} else {
		inb = tt.bin(oBvULt, r.idx.t, n)
	}
	if !in.ps.branch(inb) {
		runtimePanic(fmt.Sprintf("index out of range [symbolic] with length %d", len(r.elems)))
	}
}

// load reads elems[idx]: an if-then-else chain for scalar elements
// (run-length compressed), a fork over indices otherwise.
func (r symref) load(in *interpreter) value {
	r = r.norm()
	r.boundsCheck(in)
	if len(r.elems) == 1 {
		return r.elems[0]
	}
	k := types.Invalid
	scalar := true
	for _, e := range r.elems {
		ek := kindOfValue(e)
		if ek == types.Invalid || ek == types.Float32 {
			scalar = false
			break
		}
		if _, isfix := e.(symfix); isfix {
			scalar = false
			break
		}
		if k == types.Invalid {
			k = ek
		} else if k != ek {
			scalar = false
			break
		}
	}
	if !scalar {
		return *r.resolveChecked(in)
	}
	tt := r.idx.t.tt
	w := r.idx.t.sort.w
	// build from the last run backwards: ite(idx <= hi_j, v_j, rest)
	n := len(r.elems)
	res := termOf(tt, r.elems[n-1])
	j := n - 1
	for j > 0 {
		// find start of the run ending at j
		s := j
		for s > 0 && sameScalar(r.elems[s-1], r.elems[j]) {
			s--
		}
		if s == 0 {
			break
		}
		// elements [s..j] equal; next run ends at s-1
		prev := termOf(tt, r.elems[s-1])
		var c *Term
		if kindSigned(r.idx.k) {
			c = tt.bin(oBvSLe, r.idx.t, tt.bvConst(uint64(s-1), w))
		} else {
			c = tt.bin(oBvULe, r.idx.t, tt.bvConst(uint64(s-1), w))
		}
		res = tt.ite(c, prev, res)
		j = s - 1
	}
	return mkSym(res, k)
}

func sameScalar(a, b value) bool {
	if isSymbolic(a) || isSymbolic(b) {
		sa, ok1 := a.(sym)
		sb, ok2 := b.(sym)
		return ok1 && ok2 && sa.t == sb.t
	}
	return a == b
}

// resolve forks over the feasible indices and returns a concrete address.
func (r symref) resolve(in *interpreter) *value {
	r = r.norm()
	r.boundsCheck(in)
	return r.resolveChecked(in)
}

func (r symref) resolveChecked(in *interpreter) *value {
	idx := in.concreteInt(r.idx)
	return &r.elems[idx]
}

func onlyLoaded(instr ssa.Value) bool {
	refs := instr.Referrers()
	if refs == nil {
		return false
	}
	for _, r := range *refs {
		u, ok := r.(*ssa.UnOp)
		if !ok || u.Op != token.MUL {
			if _, isDbg := r.(*ssa.DebugRef); isDbg {
				continue
			}
			return false
		}
	}
	return true
}

// symMinMax implements builtin min/max with symbolic operands by if-conversion.
func symMinMax(x, y value, isMax bool) value {
	if isFloatVal(x) || isFloatVal(y) {
		return floatMinMax(x, y, isMax)
	}
	if _, ok := strBytes(x); ok {
		panic(engineError{"min/max on symbolic strings unsupported"})
	}
	tt := tableOf(x, y)
	k := kindOfValue(x)
	a, b := termOf(tt, x), termOf(tt, y)
	lt := oBvULt
	if kindSigned(k) {
		lt = oBvSLt
	}
	if isMax {
		return mkSym(tt.ite(tt.bin(lt, a, b), b, a), k)
	}
	return mkSym(tt.ite(tt.bin(lt, b, a), b, a), k)
}

// callNamed calls an interpreted package-level function by name.
func (in *interpreter) callNamed(pkgPath, name string, args ...value) value {
	pkg := in.prog.ImportedPackage(pkgPath)
	if pkg == nil {
		panic(engineError{"package not loaded: " + pkgPath})
	}
	fn := pkg.Func(name)
	if fn == nil {
		panic(engineError{"function not found: " + pkgPath + "." + name})
	}
	return call(in, nil, token.NoPos, fn, args)
}

// symConv handles conversions that involve symbolic values; ok=false means
// the concrete code path should run.
func symConv(in *interpreter, utDst, utSrc types.Type, x value) (value, bool) {
	switch xs := x.(type) {
	case sym, symfix:
		if b, ok := utDst.(*types.Basic); ok {
			if b.Kind() == types.String {
				// string(rune): encode through the interpreted utf8.AppendRune
				r := symConvNum(x, types.Int32)
				if kindOfValue(x) != types.Int32 {
					// other integer kinds: values outside int32 become U+FFFD
					r = x
					if kindWidth(kindOfValue(x)) > 32 {
						s := x.(sym)
						tt := s.t.tt
						fits := tt.eq(tt.sext(tt.extract(s.t, 31, 0), s.t.sort.w), s.t)
						if !kindSigned(s.k) {
							fits = tt.eq(tt.zext(tt.extract(s.t, 30, 0), s.t.sort.w), s.t)
						}
						if in.ps.branch(fits) {
							r = symConvNum(x, types.Int32)
						} else {
							return "�", true
						}
					} else {
						r = symConvNum(x, types.Int32)
					}
				}
				out := in.callNamed("unicode/utf8", "AppendRune", []value(nil), r)
				return bytesToStr(out.([]value)), true
			}
			return symConvNum(x, b.Kind()), true
		}
	case symstr:
		switch d := utDst.(type) {
		case *types.Basic:
			if d.Kind() == types.String {
				return x, true
			}
		case *types.Slice:
			switch d.Elem().Underlying().(*types.Basic).Kind() {
			case types.Byte:
				out := make([]value, len(xs))
				copy(out, xs)
				return out, true
			case types.Rune:
				var out []value
				it := &symStringIter{in: in, s: xs}
				for {
					t := it.next()
					if !t[0].(bool) {
						break
					}
					out = append(out, t[2])
				}
				return out, true
			}
		}
	case []value:
		if b, ok := utDst.(*types.Basic); ok && b.Kind() == types.String && anySym(x, 1) {
			switch utSrc.(*types.Slice).Elem().Underlying().(*types.Basic).Kind() {
			case types.Byte:
				return bytesToStr(xs), true
			case types.Rune:
				var out []value
				for _, r := range xs {
					out = in.callNamed("unicode/utf8", "AppendRune", out, r).([]value)
				}
				return bytesToStr(out), true
			}
		}
	}
	return nil, false
}

func bytesToStr(bs []value) value {
	out := make(symstr, len(bs))
	copy(out, bs)
	return normStr(out)
}

// symStringIter ranges over a string with symbolic bytes by calling the
// interpreted utf8.DecodeRuneInString on each suffix.
type symStringIter struct {
	in *interpreter
	s  symstr
	i  int
}

func (it *symStringIter) next() tuple {
	if it.i >= len(it.s) {
		return tuple{false, nil, nil}
	}
	// fast path: concrete ASCII lead byte
	if b, ok := it.s[it.i].(uint8); ok && b < utf8.RuneSelf {
		pos := it.i
		it.i++
		return tuple{true, pos, rune(b)}
	}
	rest := normStr(it.s[it.i:])
	var r value
	var n int
	if cs, ok := rest.(string); ok {
		rr, nn := utf8.DecodeRuneInString(cs)
		r, n = rr, nn
	} else {
		res := it.in.callNamed("unicode/utf8", "DecodeRuneInString", rest).(tuple)
		r = res[0]
		n = int(it.in.concreteInt(res[1]))
	}
	pos := it.i
	it.i += n
	return tuple{true, pos, r}
}

func (in *interpreter) newMapIter(m *gomap) iter {
	it := &gomapIter{m: m}
	if m != nil && in.ps != nil && in.ps.mapOrderSym && m.live >= 2 {
		it.order = in.symbolicOrder(m)
	}
	return it
}

// symbolicOrder picks an iteration order for m by a nondeterministic
// choice: all rotations and their reversals (all permutations for <=3 live
// entries).
func (in *interpreter) symbolicOrder(m *gomap) []int {
	var live []int
	for ei, e := range m.entries {
		if !e.deleted {
			live = append(live, ei)
		}
	}
	n := len(live)
	v := in.ps.drawRange("maporder", types.Int, 0, int64(2*n-1))
	c := int(in.concreteInt(v))
	rot, rev := c%n, c >= n
	out := make([]int, n)
	for j := 0; j < n; j++ {
		out[j] = live[(j+rot)%n]
	}
	if rev {
		for a, b := 0, n-1; a < b; a, b = a+1, b-1 {
			out[a], out[b] = out[b], out[a]
		}
	}
	return out
}
