package interp

// Interception of the harness-side nondeterminism API
// (oss.terrastruct.com/d2/internal/verifnd): draws become SMT variables,
// Assume/Assert/Cover talk to the path state.

import (
	"fmt"
	"go/types"
	"math"
	"math/big"
)

const ndPkg = "oss.terrastruct.com/d2/internal/verifnd."

func init() {
	for k, v := range map[string]intrinsicFn{
		"Byte":       ndByte,
		"Bool":       ndBool,
		"Int":        ndInt,
		"Int32":      ndInt32,
		"IntRange":   ndIntRange,
		"Choose":     ndChoose,
		"Float64":    ndFloat64,
		"Dyadic":     ndDyadic,
		"Assume":     ndAssume,
		"Assert":     ndAssert,
		"Cover":      ndCover,
		"Concrete":   ndConcrete,
		"ConcreteString": ndConcreteString,
		"MapOrderSymbolic": ndMapOrder,
		"Symbolic":   func(fr *frame, a []value) (value, bool) { return true, true },
		"IsSymbolic": func(fr *frame, a []value) (value, bool) { return anySym(a[0], 4), true },
		"Observe":    ndObserve,
		"Fail":       ndFail,
		"Param":      ndParam,
		"CaptureFormats": func(fr *frame, a []value) (value, bool) { fr.i.ps.captureFmt = a[0].(bool); return nil, true },
		"FloatsOf":   ndFloatsOf,
		"From":       ndFrom,
		"Quiesce":    ndQuiesce,
		"Yield":      ndYield,
		"Or":         func(fr *frame, a []value) (value, bool) { return ndBoolFold(fr, a[0], true), true },
		"And":        func(fr *frame, a []value) (value, bool) { return ndBoolFold(fr, a[0], false), true },
	} {
		intrinsics[ndPkg+k] = v
	}
}

func cstr(v value) string {
	if s, ok := v.(string); ok {
		return s
	}
	panic(engineError{fmt.Sprintf("nd: name/label argument must be a concrete string, got %T", v)})
}

func ndByte(fr *frame, a []value) (value, bool) {
	ps := fr.i.ps
	t := ps.newDraw(cstr(a[0]), "uint8", bvSort(8))
	return mkSym(t, types.Uint8), true
}

func ndBool(fr *frame, a []value) (value, bool) {
	ps := fr.i.ps
	t := ps.newDraw(cstr(a[0]), "bool", boolSort)
	return mkSym(t, types.Bool), true
}

func ndInt(fr *frame, a []value) (value, bool) {
	ps := fr.i.ps
	t := ps.newDraw(cstr(a[0]), "int", bvSort(64))
	return mkSym(t, types.Int), true
}

func ndInt32(fr *frame, a []value) (value, bool) {
	ps := fr.i.ps
	t := ps.newDraw(cstr(a[0]), "int32", bvSort(32))
	return mkSym(t, types.Int32), true
}

func ndIntRange(fr *frame, a []value) (value, bool) {
	lo, hi := fr.i.concreteInt(a[1]), fr.i.concreteInt(a[2])
	return fr.i.ps.drawRange(cstr(a[0]), types.Int, lo, hi), true
}

func ndChoose(fr *frame, a []value) (value, bool) {
	lo, hi := fr.i.concreteInt(a[1]), fr.i.concreteInt(a[2])
	return int(fr.i.ps.chooseRange(cstr(a[0]), types.Int, lo, hi)), true
}

func ndFloat64(fr *frame, a []value) (value, bool) {
	ps := fr.i.ps
	t := ps.newDraw(cstr(a[0]), "float64", fpSort)
	return mkSym(t, types.Float64), true
}

// Dyadic(name, lo, hi, k): a float64 that is a multiple of 2^-k in [lo,hi].
func ndDyadic(fr *frame, a []value) (value, bool) {
	ps := fr.i.ps
	lo, hi, k := fr.i.concreteInt(a[1]), fr.i.concreteInt(a[2]), int(fr.i.concreteInt(a[3]))
	if k < 0 || k > maxFixScale {
		panic(engineError{"Dyadic: scale out of range"})
	}
	name := cstr(a[0])
	t := ps.newDraw(name, "dyadic", bvSort(64))
	ps.draws[len(ps.draws)-1].fixK = k
	ps.draws[len(ps.draws)-1].Kind = fmt.Sprintf("dyadic%d", k)
	tt := ps.tt
	l, h := lo<<uint(k), hi<<uint(k)
	tt.varS[t] = ival{big.NewInt(l), big.NewInt(h)}
	if ps.model != nil && !ps.inReplay() {
		ps.model[t.name] = uint64(l)
		ps.ev = nil
	}
	ps.assertCond(tt.and(tt.bin(oBvSLe, tt.bvConst(uint64(l), 64), t), tt.bin(oBvSLe, t, tt.bvConst(uint64(h), 64))))
	return mkFix(t, k), true
}

func ndAssume(fr *frame, a []value) (value, bool) {
	switch c := a[0].(type) {
	case bool:
		if !c {
			panic(pathAbort{"infeasible"})
		}
	case sym:
		fr.i.ps.assume(c.t)
	}
	return nil, true
}

func ndAssert(fr *frame, a []value) (value, bool) {
	ps := fr.i.ps
	msg := cstr(a[1])
	switch c := a[0].(type) {
	case bool:
		ps.assert(ps.tt.boolConst(c), msg)
	case sym:
		ps.assert(c.t, msg)
	}
	return nil, true
}

func ndFail(fr *frame, a []value) (value, bool) {
	ps := fr.i.ps
	ps.assert(ps.tt.boolConst(false), cstr(a[0]))
	return nil, true
}

func ndCover(fr *frame, a []value) (value, bool) {
	fr.i.ps.covers[cstr(a[0])] = true
	return nil, true
}

func ndConcrete(fr *frame, a []value) (value, bool) {
	return int(fr.i.concreteInt(a[0])), true
}

func ndConcreteString(fr *frame, a []value) (value, bool) {
	return fr.i.concreteVal(a[0]), true
}

func ndMapOrder(fr *frame, a []value) (value, bool) {
	fr.i.ps.mapOrderSym = a[0].(bool)
	return nil, true
}

// Observe records a digest of an observable result; on sampled passing
// paths the native replay must produce the same sequence.
func ndObserve(fr *frame, a []value) (value, bool) {
	ps := fr.i.ps
	if len(ps.observed) < 64 {
		ps.observed = append(ps.observed, observeString(fr.i, a[0]))
	}
	return nil, true
}

func observeString(in *interpreter, v value) string {
	v = in.modelValue(v)
	if f, ok := v.(iface); ok {
		v = f.v
	}
	switch v := v.(type) {
	case string:
		return fmt.Sprintf("%q", v)
	case float64:
		if v != v {
			return "NaN"
		}
		return fmt.Sprintf("%v", v)
	case bool, int, int8, int16, int32, int64, uint, uint8, uint16, uint32, uint64:
		return fmt.Sprintf("%v", v)
	}
	return fmt.Sprintf("<%T>", v)
}

// modelValue evaluates a possibly symbolic scalar/string under the current model.
func (in *interpreter) modelValue(v value) value {
	ps := in.ps
	switch x := v.(type) {
	case sym:
		u, _ := ps.evalUnder(x.t)
		return concreteOfKind(x.k, u)
	case symfix:
		u, _ := ps.evalUnder(x.t)
		return math.Ldexp(float64(int64(u)), -x.k)
	case symstr:
		bs := make([]byte, len(x))
		for j, b := range x {
			bs[j] = in.modelValue(b).(uint8)
		}
		return string(bs)
	case iface:
		return iface{x.t, in.modelValue(x.v)}
	}
	return v
}

// Param(name, def) reads a tier parameter of the check (bounds).
func ndParam(fr *frame, a []value) (value, bool) {
	ps := fr.i.ps
	name := cstr(a[0])
	if v, ok := ps.params[name]; ok {
		return v, true
	}
	return a[1], true
}

// FloatsOf(s): the float operands of the captured Sprintf call whose
// placeholder is s (see CaptureFormats).
func ndFloatsOf(fr *frame, a []value) (value, bool) {
	s, ok := a[0].(string)
	if !ok || len(s) < 3 || s[0] != 0 || s[1] != 'F' {
		panic(engineError{"FloatsOf: argument is not a captured format placeholder"})
	}
	var id int
	fmt.Sscanf(s[2:], "%d", &id)
	var out []value
	for _, arg := range fr.i.ps.captures[id] {
		v := arg.(iface).v
		if isFloatVal(v) {
			out = append(out, v)
		}
	}
	return out, true
}

// From(name, n, alphabet): a string of n bytes each drawn from alphabet. Every
// byte is an 8-bit variable constrained by one single-variable disjunction, so
// that character-class branches are decided by byte-domain propagation.
func ndFrom(fr *frame, a []value) (value, bool) {
	ps := fr.i.ps
	tt := ps.tt
	name := cstr(a[0])
	n := int(fr.i.concreteInt(a[1]))
	alpha := cstr(a[2])
	if len(alpha) == 0 {
		panic(engineError{"From: empty alphabet"})
	}
	out := make(symstr, n)
	for j := 0; j < n; j++ {
		t := ps.newDraw(fmt.Sprintf("%s%d", name, j), "uint8", bvSort(8))
		var c *Term
		for k := 0; k < len(alpha); k++ {
			e := tt.eq(t, tt.bvConst(uint64(alpha[k]), 8))
			if c == nil {
				c = e
			} else {
				c = tt.or(c, e)
			}
		}
		if ps.model != nil && !ps.inReplay() {
			ps.model[t.name] = uint64(alpha[0])
			ps.ev = nil
		}
		ps.assertCond(c)
		out[j] = mkSym(t, types.Uint8)
	}
	return normStr(out), true
}

// Quiesce(): the calling goroutine waits until no other goroutine is runnable.
func ndQuiesce(fr *frame, a []value) (value, bool) {
	s := fr.sched()
	me := s.cur
	othersIdle := func() bool {
		for _, g := range s.gs {
			if g == me {
				continue
			}
			if g.state == gRunnable || (g.state == gBlocked && g.waitFn != nil && g.waitFn()) {
				return false
			}
		}
		return true
	}
	for !othersIdle() {
		me.state = gBlocked
		me.waitFn = othersIdle
		s.block(fr)
	}
	return nil, true
}

// Yield(): a long-running operation of the environment (a compile, a download):
// any runnable goroutine may run meanwhile; the switch is a schedule choice
// that does not count against the preemption budget.
func ndYield(fr *frame, a []value) (value, bool) {
	ps := fr.i.ps
	if ps == nil || ps.sched == nil {
		return nil, true
	}
	s := ps.sched
	var others []*goroutine
	for _, g := range s.runnable() {
		if g != s.cur {
			others = append(others, g)
		}
	}
	if len(others) == 0 {
		return nil, true
	}
	if k := s.pick(len(others) + 1); k > 0 {
		s.switchTo(others[k-1])
	}
	return nil, true
}

// ndBoolFold builds the disjunction (or conjunction) of a []bool with possibly symbolic elements.
func ndBoolFold(fr *frame, sl value, isOr bool) value {
	elems, _ := sl.([]value)
	tt := fr.i.ps.tt
	var terms []*Term
	for _, e := range elems {
		switch c := e.(type) {
		case bool:
			if c == isOr {
				return isOr // true absorbs an Or, false absorbs an And
			}
		case sym:
			terms = append(terms, c.t)
		}
	}
	if len(terms) == 0 {
		return !isOr
	}
	var t *Term
	if isOr {
		t = tt.or(terms...)
	} else {
		t = tt.and(terms...)
	}
	return mkSym(t, types.Bool)
}
