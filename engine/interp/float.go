package interp

// Symbolic float64: exact dyadic fixed-point lowering (symfix) with a
// fall-back to real QF_FP terms (sym of kind Float64).
//
// A symfix carries a signed 64-bit bit-vector t and a scale k; its value is
// t/2^k. It is only ever constructed when interval analysis of t proves
// |t| <= 2^53, so the value is exactly representable as a float64 and every
// operation implemented here (+ - neg abs min max compare, multiplication by a
// dyadic constant, ceil/floor/round/trunc, int conversion) has an exactly
// representable result, which IEEE-754 then returns exactly. Anything else is
// done on the FP term obtained by the (exact) conversion toFP.
// Not modelled: the sign of zero (a symfix zero is +0).

import (
	"fmt"
	"go/token"
	"go/types"
	"math"
	"math/big"
)

type symfix struct {
	t *Term // BV64, signed
	k int   // value = t / 2^k
}

func isFloatVal(x value) bool {
	switch x := x.(type) {
	case float64, symfix:
		return true
	case sym:
		return x.k == types.Float64
	}
	return false
}

var big2p53 = new(big.Int).Lsh(big.NewInt(1), 53)

// ---- interval analysis over BV terms

type ival struct{ lo, hi *big.Int }

func fullS(w int) ival {
	lo := new(big.Int).Lsh(big.NewInt(1), uint(w-1))
	hi := new(big.Int).Sub(lo, big.NewInt(1))
	return ival{lo.Neg(lo), hi}
}
func fullU(w int) ival {
	hi := new(big.Int).Lsh(big.NewInt(1), uint(w))
	return ival{big.NewInt(0), hi.Sub(hi, big.NewInt(1))}
}
func (a ival) within(b ival) bool { return a.lo.Cmp(b.lo) >= 0 && a.hi.Cmp(b.hi) <= 0 }
func (a ival) union(b ival) ival {
	r := ival{a.lo, a.hi}
	if b.lo.Cmp(r.lo) < 0 {
		r.lo = b.lo
	}
	if b.hi.Cmp(r.hi) > 0 {
		r.hi = b.hi
	}
	return r
}

func minmax4(a, b, c, d *big.Int) ival {
	lo, hi := a, a
	for _, x := range []*big.Int{b, c, d} {
		if x.Cmp(lo) < 0 {
			lo = x
		}
		if x.Cmp(hi) > 0 {
			hi = x
		}
	}
	return ival{lo, hi}
}

func (tt *termTable) srange(t *Term) ival {
	if r, ok := tt.sr[t]; ok {
		return r
	}
	r := tt.srange0(t)
	if !r.within(fullS(t.sort.w)) {
		r = fullS(t.sort.w)
	}
	tt.sr[t] = r
	return r
}

func (tt *termTable) urange(t *Term) ival {
	if r, ok := tt.ur[t]; ok {
		return r
	}
	r := tt.urange0(t)
	tt.ur[t] = r
	return r
}

func (tt *termTable) urange0(t *Term) ival {
	w := t.sort.w
	full := fullU(w)
	switch t.op {
	case oConst:
		v := new(big.Int).SetUint64(t.k)
		return ival{v, v}
	case oVar:
		if r, ok := tt.varU[t]; ok {
			return r
		}
	case oZext:
		return tt.urange(t.args[0])
	case oIte:
		return tt.urange(t.args[1]).union(tt.urange(t.args[2]))
	case oBvAnd:
		a, b := tt.urange(t.args[0]), tt.urange(t.args[1])
		hi := a.hi
		if b.hi.Cmp(hi) < 0 {
			hi = b.hi
		}
		return ival{big.NewInt(0), hi}
	case oBvURem:
		b := tt.urange(t.args[1])
		if b.lo.Sign() > 0 {
			return ival{big.NewInt(0), new(big.Int).Sub(b.hi, big.NewInt(1))}
		}
	case oBvLShr:
		if t.args[1].isConst() {
			a := tt.urange(t.args[0])
			sh := uint(t.args[1].k)
			return ival{new(big.Int).Rsh(a.lo, sh), new(big.Int).Rsh(a.hi, sh)}
		}
	case oBvAdd:
		a, b := tt.urange(t.args[0]), tt.urange(t.args[1])
		r := ival{new(big.Int).Add(a.lo, b.lo), new(big.Int).Add(a.hi, b.hi)}
		if r.within(full) {
			return r
		}
	case oBvMul:
		a, b := tt.urange(t.args[0]), tt.urange(t.args[1])
		r := ival{new(big.Int).Mul(a.lo, b.lo), new(big.Int).Mul(a.hi, b.hi)}
		if r.within(full) {
			return r
		}
	case oExtract:
		if t.k2 == 0 {
			a := tt.urange(t.args[0])
			if a.within(full) {
				return a
			}
		}
	}
	if t.op != oVar || true {
		// derive from signed range when non-negative
		s := tt.srange(t)
		if s.lo.Sign() >= 0 {
			return s
		}
	}
	return full
}

func (tt *termTable) srange0(t *Term) ival {
	w := t.sort.w
	full := fullS(w)
	switch t.op {
	case oConst:
		v := big.NewInt(signExt(t.k, w))
		return ival{v, v}
	case oVar:
		if r, ok := tt.varS[t]; ok {
			return r
		}
		return full
	case oBvAdd:
		a, b := tt.srange(t.args[0]), tt.srange(t.args[1])
		return ival{new(big.Int).Add(a.lo, b.lo), new(big.Int).Add(a.hi, b.hi)}
	case oBvSub:
		a, b := tt.srange(t.args[0]), tt.srange(t.args[1])
		return ival{new(big.Int).Sub(a.lo, b.hi), new(big.Int).Sub(a.hi, b.lo)}
	case oBvNeg:
		a := tt.srange(t.args[0])
		return ival{new(big.Int).Neg(a.hi), new(big.Int).Neg(a.lo)}
	case oBvMul:
		a, b := tt.srange(t.args[0]), tt.srange(t.args[1])
		m := func(x, y *big.Int) *big.Int { return new(big.Int).Mul(x, y) }
		return minmax4(m(a.lo, b.lo), m(a.lo, b.hi), m(a.hi, b.lo), m(a.hi, b.hi))
	case oIte:
		return tt.srange(t.args[1]).union(tt.srange(t.args[2]))
	case oSext:
		return tt.srange(t.args[0])
	case oZext:
		return tt.urange(t.args[0])
	case oExtract:
		if t.k2 == 0 {
			return tt.srange(t.args[0]) // clipped to full by caller if it does not fit
		}
	case oBvAShr:
		if t.args[1].isConst() {
			a := tt.srange(t.args[0])
			sh := uint(t.args[1].k)
			return ival{new(big.Int).Rsh(a.lo, sh), new(big.Int).Rsh(a.hi, sh)} // big.Rsh floors
		}
	case oBvShl:
		if t.args[1].isConst() && t.args[1].k < 64 {
			a := tt.srange(t.args[0])
			sh := uint(t.args[1].k)
			return ival{new(big.Int).Lsh(a.lo, sh), new(big.Int).Lsh(a.hi, sh)}
		}
	case oBvSDiv:
		if t.args[1].isConst() && signExt(t.args[1].k, w) > 0 {
			a := tt.srange(t.args[0])
			d := big.NewInt(signExt(t.args[1].k, w))
			return ival{new(big.Int).Quo(a.lo, d), new(big.Int).Quo(a.hi, d)}
		}
	case oBvSRem:
		if t.args[1].isConst() && signExt(t.args[1].k, w) > 0 {
			a := tt.srange(t.args[0])
			d := big.NewInt(signExt(t.args[1].k, w) - 1)
			lo := new(big.Int).Neg(d)
			if a.lo.Sign() >= 0 {
				lo = big.NewInt(0)
			}
			return ival{lo, d}
		}
	case oBvAnd, oBvURem, oBvLShr:
		u := tt.urange(t)
		if u.within(full) {
			return u
		}
	}
	return full
}

// ---- symfix construction

// fixOK reports whether t's proven range keeps |t| <= 2^53.
func (tt *termTable) fixOK(t *Term) bool {
	r := tt.srange(t)
	return r.hi.Cmp(big2p53) <= 0 && new(big.Int).Neg(r.lo).Cmp(big2p53) <= 0
}

const maxFixScale = 24

// dyadic decomposes a finite float c as m / 2^j with m an integer, |m|<2^53.
func dyadic(c float64) (m int64, j int, ok bool) {
	if c != c || math.IsInf(c, 0) {
		return 0, 0, false
	}
	if c == 0 {
		return 0, 0, true
	}
	frac, exp := math.Frexp(c) // c = frac * 2^exp, 0.5<=|frac|<1
	M := int64(frac * (1 << 53))
	e := exp - 53 // c = M * 2^e
	for M%2 == 0 {
		M /= 2
		e++
	}
	if e >= 0 {
		if e > 40 {
			return 0, 0, false
		}
		if M > (1<<62)>>uint(e) || M < -((1<<62)>>uint(e)) {
			return 0, 0, false
		}
		return M << uint(e), 0, true
	}
	if -e > maxFixScale {
		return 0, 0, false
	}
	return M, -e, true
}

// asFix converts a float value to symfix if possible.
func asFix(tt *termTable, x value) (symfix, bool) {
	switch x := x.(type) {
	case symfix:
		return x, true
	case float64:
		m, j, ok := dyadic(x)
		if !ok || (x == 0 && math.Signbit(x)) {
			return symfix{}, false
		}
		return symfix{tt.bvConst(uint64(m), 64), j}, true
	}
	return symfix{}, false
}

func (f symfix) toFP(tt *termTable) *Term {
	x := tt.op(oFpFromS, fpSort, 0, 0, f.t)
	if f.k == 0 {
		return x
	}
	return tt.op(oFpMul, fpSort, 0, 0, x, tt.fpConst(math.Ldexp(1, -f.k)))
}

func fpTermOf(tt *termTable, x value) *Term {
	switch x := x.(type) {
	case float64:
		return tt.fpConst(x)
	case symfix:
		return x.toFP(tt)
	case sym:
		return x.t
	}
	panic(fmt.Sprintf("fpTermOf %T", x))
}

func mkFix(t *Term, k int) value {
	if t.isConst() {
		return math.Ldexp(float64(int64(t.k)), -k)
	}
	return symfix{t, k}
}

func align(tt *termTable, a, b symfix) (*Term, *Term, int) {
	k := a.k
	if b.k > k {
		k = b.k
	}
	ta, tb := a.t, b.t
	if a.k < k {
		ta = tt.bin(oBvShl, ta, tt.bvConst(uint64(k-a.k), 64))
	}
	if b.k < k {
		tb = tt.bin(oBvShl, tb, tt.bvConst(uint64(k-b.k), 64))
	}
	return ta, tb, k
}

func floatBinop(op token.Token, x, y value) value {
	tt := tableOf(x, y)
	fa, oka := asFix(tt, x)
	fb, okb := asFix(tt, y)
	if oka && okb {
		if r, ok := fixBinop(tt, op, fa, fb, y); ok {
			return r
		}
	}
	a, b := fpTermOf(tt, x), fpTermOf(tt, y)
	switch op {
	case token.ADD:
		return mkSym(tt.bin(oFpAdd, a, b), types.Float64)
	case token.SUB:
		return mkSym(tt.bin(oFpSub, a, b), types.Float64)
	case token.MUL:
		return mkSym(tt.bin(oFpMul, a, b), types.Float64)
	case token.QUO:
		return mkSym(tt.bin(oFpDiv, a, b), types.Float64)
	case token.EQL:
		return mkSym(tt.bin(oFpEq, a, b), types.Bool)
	case token.NEQ:
		return mkSym(tt.not(tt.bin(oFpEq, a, b)), types.Bool)
	case token.LSS:
		return mkSym(tt.bin(oFpLt, a, b), types.Bool)
	case token.LEQ:
		return mkSym(tt.bin(oFpLe, a, b), types.Bool)
	case token.GTR:
		return mkSym(tt.bin(oFpLt, b, a), types.Bool)
	case token.GEQ:
		return mkSym(tt.bin(oFpLe, b, a), types.Bool)
	}
	panic(fmt.Sprintf("floatBinop %v", op))
}

func fixBinop(tt *termTable, op token.Token, a, b symfix, yorig value) (value, bool) {
	switch op {
	case token.ADD, token.SUB:
		ta, tb, k := align(tt, a, b)
		if !tt.fixOK(ta) || !tt.fixOK(tb) {
			return nil, false
		}
		o := oBvAdd
		if op == token.SUB {
			o = oBvSub
		}
		r := tt.bin(o, ta, tb)
		if !tt.fixOK(r) {
			return nil, false
		}
		return mkFix(r, k), true
	case token.MUL:
		r := tt.bin(oBvMul, a.t, b.t)
		k := a.k + b.k
		if k > 2*maxFixScale || !tt.fixOK(r) {
			return nil, false
		}
		return mkFix(r, k), true
	case token.QUO:
		// only division by a constant power of two is exact in general
		if b.t.isConst() {
			m := int64(b.t.k)
			neg := m < 0
			if neg {
				m = -m
			}
			if m > 0 && m&(m-1) == 0 {
				// b = ±2^(log2 m - b.k)
				sh := log2(uint64(m)) - b.k // divide by 2^sh
				t := a.t
				if neg {
					t = tt.op(oBvNeg, t.sort, 0, 0, t)
				}
				k := a.k + sh
				if k < 0 {
					t = tt.bin(oBvShl, t, tt.bvConst(uint64(-k), 64))
					k = 0
				}
				if k > 2*maxFixScale || !tt.fixOK(t) {
					return nil, false
				}
				return mkFix(t, k), true
			}
		}
		return nil, false
	case token.EQL, token.NEQ, token.LSS, token.LEQ, token.GTR, token.GEQ:
		ta, tb, _ := align(tt, a, b)
		if !tt.fixOK(ta) || !tt.fixOK(tb) {
			return nil, false
		}
		var r *Term
		switch op {
		case token.EQL:
			r = tt.eq(ta, tb)
		case token.NEQ:
			r = tt.not(tt.eq(ta, tb))
		case token.LSS:
			r = tt.bin(oBvSLt, ta, tb)
		case token.LEQ:
			r = tt.bin(oBvSLe, ta, tb)
		case token.GTR:
			r = tt.bin(oBvSLt, tb, ta)
		case token.GEQ:
			r = tt.bin(oBvSLe, tb, ta)
		}
		return mkSym(r, types.Bool), true
	}
	return nil, false
}

func floatNeg(x value) value {
	switch x := x.(type) {
	case symfix:
		tt := x.t.tt
		return mkFix(tt.op(oBvNeg, x.t.sort, 0, 0, x.t), x.k)
	case sym:
		tt := x.t.tt
		return mkSym(tt.op(oFpNeg, fpSort, 0, 0, x.t), types.Float64)
	}
	panic("floatNeg")
}

func (f symfix) conv(dst types.BasicKind) value {
	tt := f.t.tt
	if dst == types.Float64 {
		return f
	}
	if dst == types.Float32 {
		panic(engineError{"float32 conversion of symbolic float64 unsupported"})
	}
	// truncate toward zero
	t := fixRound(tt, f, 3)
	w := kindWidth(dst)
	if w < 64 {
		t = tt.extract(t, w-1, 0)
	}
	return mkSym(t, dst)
}

// fixRound returns the BV64 integer (scale 0) for mode 1 ceil, 2 floor, 3 trunc, 4 round-half-away.
func fixRound(tt *termTable, f symfix, mode int) *Term {
	if f.k == 0 {
		return f.t
	}
	kk := tt.bvConst(uint64(f.k), 64)
	floor := func(t *Term) *Term { return tt.bin(oBvAShr, t, kk) }
	ceil := func(t *Term) *Term {
		return tt.op(oBvNeg, t.sort, 0, 0, floor(tt.op(oBvNeg, t.sort, 0, 0, t)))
	}
	neg := tt.bin(oBvSLt, f.t, tt.bvConst(0, 64))
	switch mode {
	case 1:
		return ceil(f.t)
	case 2:
		return floor(f.t)
	case 3:
		return tt.ite(neg, ceil(f.t), floor(f.t))
	case 4:
		half := tt.bvConst(uint64(1)<<uint(f.k-1), 64)
		return tt.ite(neg, ceil(tt.bin(oBvSub, f.t, half)), floor(tt.bin(oBvAdd, f.t, half)))
	}
	panic("fixRound mode")
}

func intToFloat(s sym) value {
	tt := s.t.tt
	var t64 *Term
	if kindSigned(s.k) {
		t64 = tt.sext(s.t, 64)
	} else {
		if kindWidth(s.k) == 64 {
			// unsigned 64: only a fix if provably < 2^63
			if tt.urange(s.t).hi.BitLen() > 53 {
				return mkSym(tt.op(oFpFromU, fpSort, 0, 0, s.t), types.Float64)
			}
			t64 = s.t
		} else {
			t64 = tt.zext(s.t, 64)
		}
	}
	if tt.fixOK(t64) {
		return mkFix(t64, 0)
	}
	if kindSigned(s.k) {
		return mkSym(tt.op(oFpFromS, fpSort, 0, 0, s.t), types.Float64)
	}
	return mkSym(tt.op(oFpFromU, fpSort, 0, 0, s.t), types.Float64)
}

// ---- math intrinsics on symbolic floats

func floatRound(x value, mode int) value {
	switch x := x.(type) {
	case symfix:
		return mkFix(fixRound(x.t.tt, x, mode), 0)
	case sym:
		tt := x.t.tt
		return mkSym(tt.op(oFpRTI, fpSort, uint64(mode), 0, x.t), types.Float64)
	}
	panic("floatRound")
}

func floatAbs(x value) value {
	switch x := x.(type) {
	case symfix:
		tt := x.t.tt
		neg := tt.bin(oBvSLt, x.t, tt.bvConst(0, 64))
		return mkFix(tt.ite(neg, tt.op(oBvNeg, x.t.sort, 0, 0, x.t), x.t), x.k)
	case sym:
		tt := x.t.tt
		return mkSym(tt.op(oFpAbs, fpSort, 0, 0, x.t), types.Float64)
	}
	panic("floatAbs")
}

// floatMinMax implements math.Max/Min and the builtin max/min for floats
// (NaN-propagating; sign of zero not modelled for symfix).
func floatMinMax(x, y value, isMax bool) value {
	// min(+Inf, v) = v and max(-Inf, v) = v exactly for every finite v (a symfix is
	// finite): the usual way to start a bounding-box fold must not leave the exact lowering
	for _, p := range [][2]value{{x, y}, {y, x}} {
		if c, ok := p[0].(float64); ok {
			if _, isFix := p[1].(symfix); isFix {
				if (!isMax && math.IsInf(c, 1)) || (isMax && math.IsInf(c, -1)) {
					return p[1]
				}
			}
		}
	}
	tt := tableOf(x, y)
	fa, oka := asFix(tt, x)
	fb, okb := asFix(tt, y)
	if oka && okb {
		ta, tb, k := align(tt, fa, fb)
		if tt.fixOK(ta) && tt.fixOK(tb) {
			c := tt.bin(oBvSLt, ta, tb)
			if isMax {
				return mkFix(tt.ite(c, tb, ta), k)
			}
			return mkFix(tt.ite(c, ta, tb), k)
		}
	}
	a, b := fpTermOf(tt, x), fpTermOf(tt, y)
	nan := tt.or(tt.op(oFpIsNaN, boolSort, 0, 0, a), tt.op(oFpIsNaN, boolSort, 0, 0, b))
	var pick *Term
	if isMax {
		pick = tt.ite(tt.bin(oFpLt, a, b), b, a)
	} else {
		pick = tt.ite(tt.bin(oFpLt, b, a), b, a)
	}
	return mkSym(tt.ite(nan, tt.fpConst(math.NaN()), pick), types.Float64)
}

func floatSqrt(x value) value {
	tt := tableOf(x)
	return mkSym(tt.op(oFpSqrt, fpSort, 0, 0, fpTermOf(tt, x)), types.Float64)
}

func floatIsNaN(x value) value {
	switch x := x.(type) {
	case symfix:
		return false
	case sym:
		return mkSym(x.t.tt.op(oFpIsNaN, boolSort, 0, 0, x.t), types.Bool)
	}
	panic("floatIsNaN")
}

func floatIsInf(x value, sign int) value {
	switch x := x.(type) {
	case symfix:
		return false
	case sym:
		tt := x.t.tt
		inf := tt.op(oFpIsInf, boolSort, 0, 0, x.t)
		switch {
		case sign > 0:
			return mkSym(tt.and(inf, tt.bin(oFpLt, tt.fpConst(0), x.t)), types.Bool)
		case sign < 0:
			return mkSym(tt.and(inf, tt.bin(oFpLt, x.t, tt.fpConst(0))), types.Bool)
		}
		return mkSym(inf, types.Bool)
	}
	panic("floatIsInf")
}
