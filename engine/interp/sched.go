package interp

// Cooperative scheduler: goroutines, channels, select, sync.Mutex/WaitGroup of
// the interpreted program as engine objects, with the schedule a symbolic
// choice.
//
// Every interpreted goroutine runs on a host goroutine of its own, but only the
// holder of the baton executes interpreter code; all others are parked on their
// resume channel. Control changes hands only at synchronisation operations
// (channel send/receive/close, select, Mutex.Lock, WaitGroup.Wait, go, goroutine
// exit, Gosched/Sleep): when the running goroutine blocks or ends, the next one
// is a symbolic choice among the runnable goroutines; at other synchronisation
// points a switch is a choice as long as the preemption budget (parameter
// PREEMPT) is not used up. Each choice is a draw named "sched", so the explorer
// forks over it like over any other input and a counterexample's replay file
// contains the schedule.
//
// Channel values keep their Go representation (chan value) as identity only;
// the state of a channel lives in sched.chans.

import (
	"fmt"
	"go/types"
	"sync"

	"golang.org/x/tools/go/ssa"
)

type gstate int

const (
	gRunnable gstate = iota
	gBlocked
	gDone
)

type waitCase struct {
	ch   chan value
	send bool
	val  value
}

type goroutine struct {
	id     int
	resume chan struct{}
	state  gstate
	wait   []waitCase  // blocked in a channel operation / select over these cases
	waitFn func() bool // blocked until waitFn() is true (mutex, wait group)
	// filled in by the partner that completes a channel operation for us
	fired   int // index into wait of the case that fired; -1 none; -2 channel closed under a send
	recvVal value
	recvOK  bool
	depth   int
	what    string
}

type gchan struct {
	buf    []value
	cap    int
	closed bool
}

type schedKill struct{}

type sched struct {
	i       *interpreter
	gs      []*goroutine
	cur     *goroutine
	chans   map[chan value]*gchan
	locked  map[*value]bool
	wgs     map[*value]int
	pending interface{} // panic to be raised on the main goroutine
	killed  bool
	preempt int
	wg      sync.WaitGroup // host goroutines still alive
	nchoice int
}

func newSched(i *interpreter, preempt int) *sched {
	s := &sched{i: i, chans: map[chan value]*gchan{}, locked: map[*value]bool{}, wgs: map[*value]int{}, preempt: preempt}
	g0 := &goroutine{id: 0, resume: make(chan struct{}), fired: -1, what: "main"}
	s.gs = []*goroutine{g0}
	s.cur = g0
	return s
}

func (fr *frame) sched() *sched {
	ps := fr.i.ps
	if ps == nil || ps.sched == nil {
		panic(engineError{"concurrency primitive reached but the harness does not enable the scheduler (\"sched\": true)" + callerChain(fr)})
	}
	return ps.sched
}

// pick makes a symbolic choice among n alternatives.
func (s *sched) pick(n int) int {
	if n <= 1 {
		return 0
	}
	s.nchoice++
	ps := s.i.ps
	return int(ps.chooseRange("sched", types.Int, 0, int64(n-1)))
}

func (s *sched) runnable() []*goroutine {
	var out []*goroutine
	for _, g := range s.gs {
		if g.state == gRunnable {
			out = append(out, g)
		} else if g.state == gBlocked && g.waitFn != nil && g.waitFn() {
			out = append(out, g)
		}
	}
	return out
}

// switchTo hands the baton to next and parks the current goroutine until it is resumed.
func (s *sched) switchTo(next *goroutine) {
	cur := s.cur
	if next == cur {
		return
	}
	cur.depth = s.i.depth
	s.cur = next
	s.i.depth = next.depth
	next.resume <- struct{}{}
	if cur.state == gDone {
		return
	}
	s.park(cur)
}

// park blocks the host goroutine of g until g is resumed.
func (s *sched) park(g *goroutine) {
	<-g.resume
	if s.killed {
		panic(schedKill{})
	}
	if g.id == 0 && s.pending != nil {
		p := s.pending
		s.pending = nil
		panic(p)
	}
}

// next chooses the goroutine to run when the current one cannot continue.
func (s *sched) next() *goroutine {
	rs := s.runnable()
	if len(rs) == 0 {
		return nil
	}
	return rs[s.pick(len(rs))]
}

// block parks the current goroutine (already marked blocked) and runs another one.
func (s *sched) block(fr *frame) {
	cur := s.cur
	n := s.next()
	if n == nil {
		// nobody can run: a deadlock of the program under test
		s.raise(violationPanic{"deadlock: all goroutines are blocked" + s.describe()})
		return
	}
	if n == cur {
		// only possible through waitFn having become true
		cur.state = gRunnable
		cur.waitFn = nil
		return
	}
	s.switchTo(n)
	cur.state = gRunnable
	cur.waitFn = nil
}

// raise delivers a panic value to the main goroutine (whose host goroutine
// carries the path's recover) from whichever goroutine is running.
func (s *sched) raise(p interface{}) {
	if s.cur.id == 0 {
		panic(p)
	}
	s.pending = p
	cur := s.cur
	cur.state = gDone
	g0 := s.gs[0]
	s.cur = g0
	s.i.depth = g0.depth
	g0.state = gRunnable
	g0.resume <- struct{}{}
	// this host goroutine ends here
	panic(schedKill{})
}

func (s *sched) describe() string {
	out := ""
	for _, g := range s.gs {
		st := "runnable"
		switch g.state {
		case gBlocked:
			st = "blocked"
			if len(g.wait) > 0 {
				st += fmt.Sprintf(" on %d channel case(s)", len(g.wait))
			} else if g.waitFn != nil {
				st += " on a lock or wait group"
			}
		case gDone:
			st = "done"
		}
		out += fmt.Sprintf("\n\tgoroutine %d (%s): %s", g.id, g.what, st)
	}
	return out
}

// yield is a voluntary preemption point.
func (s *sched) yield() {
	if s.preempt <= 0 {
		return
	}
	var others []*goroutine
	for _, g := range s.runnable() {
		if g != s.cur {
			others = append(others, g)
		}
	}
	if len(others) == 0 {
		return
	}
	k := s.pick(len(others) + 1)
	if k == 0 {
		return
	}
	s.preempt--
	s.switchTo(others[k-1])
}

// ---- goroutines

func spawn(fr *frame, instr *ssa.Go, fn value, args []value) {
	s := fr.sched()
	g := &goroutine{id: len(s.gs), resume: make(chan struct{}), fired: -1, what: fmt.Sprint(instr.Call.Value.Name())}
	s.gs = append(s.gs, g)
	i := fr.i
	s.wg.Add(1)
	go func() {
		defer s.wg.Done()
		defer func() {
			p := recover()
			if p == nil {
				return
			}
			if _, ok := p.(schedKill); ok {
				return
			}
			// a panic escaping a goroutine ends the program: deliver it to the path
			func() {
				defer func() { recover() }()
				s.raise(p)
			}()
		}()
		<-g.resume
		if s.killed {
			return
		}
		call(i, nil, instr.Pos(), fn, args)
		g.state = gDone
		n := s.next()
		if n == nil {
			s.raise(violationPanic{"deadlock: all goroutines are blocked" + s.describe()})
			return
		}
		s.switchTo(n)
	}()
	s.yield()
}

// finish ends the schedule of a path: every parked goroutine is woken and unwinds.
// It runs on the main host goroutine, which holds the baton at that point, so
// every other live goroutine is parked on its resume channel.
func (s *sched) finish() {
	s.killed = true
	for _, g := range s.gs[1:] {
		if g.state != gDone {
			g.resume <- struct{}{}
		}
	}
	s.wg.Wait()
}

// ---- channels

func (s *sched) ch(c chan value) *gchan {
	if g, ok := s.chans[c]; ok {
		return g
	}
	if c == nil {
		return nil
	}
	// a channel made during package initialisation (outside any path), e.g. context's
	// closedchan: adopt its state
	g := &gchan{cap: cap(c)}
	select {
	case _, ok := <-c:
		if !ok {
			g.closed = true
		}
	default:
	}
	s.chans[c] = g
	return g
}

func makeChan(fr *frame, instr *ssa.MakeChan, size int64) value {
	c := make(chan value)
	if ps := fr.i.ps; ps != nil && ps.sched != nil {
		ps.sched.chans[c] = &gchan{cap: int(size)}
		return c
	}
	// without a scheduler only buffered use without blocking is possible
	return make(chan value, size)
}

// ready reports whether case wc of goroutine g can proceed now and which parked goroutine is its partner.
func (s *sched) ready(g *goroutine, wc waitCase) (ok bool, partner *goroutine, pidx int) {
	if wc.ch == nil {
		return false, nil, 0
	}
	c := s.ch(wc.ch)
	if c == nil {
		panic(engineError{"channel created outside the scheduler"})
	}
	if wc.send {
		if c.closed {
			return true, nil, 0 // will panic
		}
		for _, o := range s.gs {
			if o == g || o.state != gBlocked {
				continue
			}
			for j, w := range o.wait {
				if !w.send && w.ch == wc.ch {
					return true, o, j
				}
			}
		}
		return len(c.buf) < c.cap, nil, 0
	}
	if len(c.buf) > 0 {
		return true, nil, 0
	}
	for _, o := range s.gs {
		if o == g || o.state != gBlocked {
			continue
		}
		for j, w := range o.wait {
			if w.send && w.ch == wc.ch {
				return true, o, j
			}
		}
	}
	return c.closed, nil, 0
}

// perform executes a ready case for the current goroutine.
func (s *sched) perform(fr *frame, wc waitCase) (v value, ok bool) {
	g := s.cur
	_, partner, pidx := s.ready(g, wc)
	c := s.ch(wc.ch)
	if wc.send {
		if c.closed {
			panic(targetPanic{"send on closed channel"})
		}
		if partner != nil {
			partner.recvVal, partner.recvOK, partner.fired = wc.val, true, pidx
			partner.state = gRunnable
			partner.wait = nil
			return nil, true
		}
		c.buf = append(c.buf, wc.val)
		return nil, true
	}
	if len(c.buf) > 0 {
		v = c.buf[0]
		c.buf = append([]value{}, c.buf[1:]...)
		// a sender blocked on the full buffer can now complete
		for _, o := range s.gs {
			if o == g || o.state != gBlocked {
				continue
			}
			for j, w := range o.wait {
				if w.send && w.ch == wc.ch && len(c.buf) < c.cap {
					c.buf = append(c.buf, w.val)
					o.fired = j
					o.state = gRunnable
					o.wait = nil
				}
			}
		}
		return v, true
	}
	if partner != nil {
		v = partner.wait[pidx].val
		partner.fired = pidx
		partner.state = gRunnable
		partner.wait = nil
		return v, true
	}
	// closed and drained
	return nil, false
}

// waitOn blocks the current goroutine on cases until a partner completes one of them.
func (s *sched) waitOn(fr *frame, cases []waitCase) (idx int, v value, ok bool) {
	g := s.cur
	g.wait = cases
	g.fired = -1
	g.state = gBlocked
	s.block(fr)
	g.wait = nil
	if g.fired == -2 {
		panic(targetPanic{"send on closed channel"})
	}
	if g.fired < 0 {
		panic(engineError{"goroutine resumed without a completed channel operation"})
	}
	return g.fired, g.recvVal, g.recvOK
}

func chanSend(fr *frame, ch, v value) {
	s := fr.sched()
	s.yield()
	wc := waitCase{ch: ch.(chan value), send: true, val: v}
	if ok, _, _ := s.ready(s.cur, wc); ok {
		s.perform(fr, wc)
		return
	}
	s.waitOn(fr, []waitCase{wc})
}

func chanRecv(fr *frame, instr *ssa.UnOp, x value) value {
	s := fr.sched()
	s.yield()
	wc := waitCase{ch: x.(chan value)}
	var v value
	var ok bool
	if rdy, _, _ := s.ready(s.cur, wc); rdy {
		v, ok = s.perform(fr, wc)
	} else {
		_, v, ok = s.waitOn(fr, []waitCase{wc})
	}
	if !ok {
		v = zero(instr.X.Type().Underlying().(*types.Chan).Elem())
	}
	if instr.CommaOk {
		return tuple{v, ok}
	}
	return v
}

func chanClose(fr *frame, x value) {
	if ps := fr.i.ps; ps == nil || ps.sched == nil {
		close(x.(chan value)) // package initialisation
		return
	}
	s := fr.sched()
	s.yield()
	c := s.ch(x.(chan value))
	if c == nil {
		panic(targetPanic{"close of nil channel"})
	}
	if c.closed {
		panic(targetPanic{"close of closed channel"})
	}
	c.closed = true
	for _, o := range s.gs {
		if o.state != gBlocked {
			continue
		}
		for j, w := range o.wait {
			if w.ch != x.(chan value) {
				continue
			}
			if w.send {
				o.fired = -2
			} else if len(c.buf) == 0 {
				o.fired, o.recvVal, o.recvOK = j, nil, false
			} else {
				continue
			}
			o.state = gRunnable
			o.wait = nil
			break
		}
	}
}

func chanLen(fr *frame, x value) int {
	if ps := fr.i.ps; ps != nil && ps.sched != nil {
		if c := ps.sched.ch(x.(chan value)); c != nil {
			return len(c.buf)
		}
	}
	return len(x.(chan value))
}

func chanCap(fr *frame, x value) int {
	if ps := fr.i.ps; ps != nil && ps.sched != nil {
		if c := ps.sched.ch(x.(chan value)); c != nil {
			return c.cap
		}
	}
	return cap(x.(chan value))
}

// doSelect implements the select statement: among the ready cases one is chosen
// symbolically (Go chooses pseudo-randomly); without a ready case the default is
// taken or the goroutine blocks on all cases.
func doSelect(fr *frame, instr *ssa.Select) value {
	s := fr.sched()
	s.yield()
	cases := make([]waitCase, len(instr.States))
	for j, st := range instr.States {
		wc := waitCase{send: st.Dir == types.SendOnly}
		if c, _ := fr.get(st.Chan).(chan value); c != nil {
			wc.ch = c
		}
		if wc.send {
			wc.val = fr.get(st.Send)
		}
		cases[j] = wc
	}
	var ready []int
	for j, wc := range cases {
		if ok, _, _ := s.ready(s.cur, wc); ok {
			ready = append(ready, j)
		}
	}
	idx := -1
	var v value
	ok := false
	switch {
	case len(ready) > 0:
		idx = ready[s.pick(len(ready))]
		v, ok = s.perform(fr, cases[idx])
	case !instr.Blocking:
		idx = -1
	default:
		idx, v, ok = s.waitOn(fr, cases)
	}
	r := tuple{idx, ok}
	for j, st := range instr.States {
		if st.Dir == types.RecvOnly {
			var rv value
			if j == idx && ok {
				rv = v
			} else {
				rv = zero(st.Chan.Type().Underlying().(*types.Chan).Elem())
			}
			r = append(r, rv)
		}
	}
	return r
}

// ---- sync primitives under the scheduler

func (s *sched) lock(fr *frame, m *value) {
	s.yield()
	for s.locked[m] {
		g := s.cur
		g.state = gBlocked
		g.waitFn = func() bool { return !s.locked[m] }
		s.block(fr)
	}
	s.locked[m] = true
}

func schedMutexLock(fr *frame, a []value) (value, bool) {
	if ps := fr.i.ps; ps == nil || ps.sched == nil {
		return nil, true
	}
	fr.sched().lock(fr, a[0].(*value))
	return nil, true
}

func schedMutexUnlock(fr *frame, a []value) (value, bool) {
	if ps := fr.i.ps; ps == nil || ps.sched == nil {
		return nil, true
	}
	s := fr.sched()
	m := a[0].(*value)
	if !s.locked[m] {
		panic(targetPanic{"sync: unlock of unlocked mutex"})
	}
	s.locked[m] = false
	s.yield()
	return nil, true
}

func schedMutexTryLock(fr *frame, a []value) (value, bool) {
	if ps := fr.i.ps; ps == nil || ps.sched == nil {
		return true, true
	}
	s := fr.sched()
	m := a[0].(*value)
	if s.locked[m] {
		return false, true
	}
	s.locked[m] = true
	return true, true
}

func schedWGAdd(fr *frame, a []value) (value, bool) {
	s := fr.sched()
	w := a[0].(*value)
	n := int(asInt64(a[1]))
	s.wgs[w] += n
	if s.wgs[w] < 0 {
		panic(targetPanic{"sync: negative WaitGroup counter"})
	}
	return nil, true
}

func schedWGDone(fr *frame, a []value) (value, bool) {
	s := fr.sched()
	w := a[0].(*value)
	s.wgs[w]--
	if s.wgs[w] < 0 {
		panic(targetPanic{"sync: negative WaitGroup counter"})
	}
	s.yield()
	return nil, true
}

func schedWGWait(fr *frame, a []value) (value, bool) {
	s := fr.sched()
	w := a[0].(*value)
	s.yield()
	for s.wgs[w] > 0 {
		g := s.cur
		g.state = gBlocked
		g.waitFn = func() bool { return s.wgs[w] == 0 }
		s.block(fr)
	}
	return nil, true
}

func schedGosched(fr *frame, a []value) (value, bool) {
	if ps := fr.i.ps; ps != nil && ps.sched != nil {
		ps.sched.yield()
	}
	return nil, true
}

func init() {
	for k, v := range map[string]intrinsicFn{
		"(*sync.Mutex).Lock":        schedMutexLock,
		"(*sync.Mutex).Unlock":      schedMutexUnlock,
		"(*sync.Mutex).TryLock":     schedMutexTryLock,
		"(*sync.RWMutex).Lock":      schedMutexLock,
		"(*sync.RWMutex).Unlock":    schedMutexUnlock,
		"(*sync.RWMutex).RLock":     schedMutexLock,
		"(*sync.RWMutex).RUnlock":   schedMutexUnlock,
		"(*sync.WaitGroup).Add":     schedWGAdd,
		"(*sync.WaitGroup).Done":    schedWGDone,
		"(*sync.WaitGroup).Wait":    schedWGWait,
		"runtime.Gosched":           schedGosched,
		"time.Sleep":                schedGosched,
		// the clock is environment: timers and tickers never fire, time stands still
		"time.NewTicker":      schedTimer,
		"time.NewTimer":       schedTimer,
		"time.AfterFunc":      schedTimer,
		"time.After":          schedAfter,
		"time.Tick":           schedAfter,
		"(*time.Ticker).Stop": nop,
		"(*time.Ticker).Reset": nop,
		"(*time.Timer).Stop":  func(fr *frame, a []value) (value, bool) { return true, true },
		"(*time.Timer).Reset": func(fr *frame, a []value) (value, bool) { return true, true },
		"time.Now":            schedZeroResult,
		"time.Since":          func(fr *frame, a []value) (value, bool) { return int64(0), true },
		"time.Until":          func(fr *frame, a []value) (value, bool) { return int64(1 << 40), true },
	} {
		intrinsics[k] = v
	}
}

// schedTimer: time.NewTicker / NewTimer / AfterFunc return a timer whose channel never delivers.
func schedTimer(fr *frame, a []value) (value, bool) {
	pt := fr.fn.Signature.Results().At(0).Type().(*types.Pointer)
	st := zero(pt.Elem()).(structure)
	if _, isChan := pt.Elem().Underlying().(*types.Struct).Field(0).Type().Underlying().(*types.Chan); isChan {
		if fr.fn.Name() != "AfterFunc" {
			st[0] = schedNever(fr)
		}
	}
	addr := new(value)
	*addr = st
	return addr, true
}

func schedNever(fr *frame) value {
	c := make(chan value)
	if ps := fr.i.ps; ps != nil && ps.sched != nil {
		ps.sched.chans[c] = &gchan{}
	}
	return c
}

func schedAfter(fr *frame, a []value) (value, bool) { return schedNever(fr), true }

func schedZeroResult(fr *frame, a []value) (value, bool) {
	return zero(fr.fn.Signature.Results().At(0).Type()), true
}

// ---- sync/atomic.Value (its real methods go through unsafe): struct{v any}

func atomicValueCell(a value) *value {
	return &(*a.(*value)).(structure)[0]
}

func init() {
	intrinsics["(*sync/atomic.Value).Load"] = func(fr *frame, a []value) (value, bool) {
		v := *atomicValueCell(a[0])
		if v == nil {
			return iface{}, true
		}
		return v, true
	}
	intrinsics["(*sync/atomic.Value).Store"] = func(fr *frame, a []value) (value, bool) {
		c := atomicValueCell(a[0])
		fr.i.logStore(c)
		*c = a[1]
		return nil, true
	}
	intrinsics["(*sync/atomic.Value).Swap"] = func(fr *frame, a []value) (value, bool) {
		c := atomicValueCell(a[0])
		old := *c
		fr.i.logStore(c)
		*c = a[1]
		if old == nil {
			return iface{}, true
		}
		return old, true
	}
}

// ---- golang.org/x/xerrors errors print themselves through fmt.Formatter
// (Error calls fmt.Sprint(e)), which the engine's fmt summary does not model:
// msg, followed by ": " and the wrapped error's text.
func xerrorsError(fr *frame, a []value) (value, bool) {
	st := (*a[0].(*value)).(structure)
	msg, _ := st[0].(string)
	if inner, ok := st[1].(iface); ok && inner.t != nil {
		var fn *ssa.Function
		if inner.t == errorType {
			for _, m := range fr.i.errorMethods {
				if m.Name() == "Error" {
					fn = m
				}
			}
		} else {
			fn = fr.i.prog.LookupMethod(inner.t, nil, "Error")
		}
		if fn != nil {
			r := call(fr.i, fr, fr.fn.Pos(), fn, []value{inner.v})
			if s, ok := r.(string); ok {
				return msg + ": " + s, true
			}
		}
	}
	return msg, true
}

func init() {
	intrinsics["(*golang.org/x/xerrors.noWrapError).Error"] = xerrorsError
	intrinsics["(*golang.org/x/xerrors.wrapError).Error"] = xerrorsError
}
