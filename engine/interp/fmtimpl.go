package interp

// fmt intrinsics. The real fmt is reflection-driven; here the format string
// (always concrete) is parsed and each operand is rendered: concrete scalars
// and strings through the native fmt with the same verb, error/Stringer
// operands through their interpreted methods, symbolic strings spliced
// byte-for-byte (%s, %v) or quoted without escaping (%q — approximation,
// listed as a stub in every evidence file).

import (
	"fmt"
	"go/token"
	"go/types"
	"strings"

	"golang.org/x/tools/go/ssa"
)

func init() {
	for k, v := range map[string]intrinsicFn{
		"fmt.Sprintf":  fmtSprintf,
		"fmt.Sprint":   fmtSprint,
		"fmt.Sprintln": fmtSprintln,
		"fmt.Errorf":   fmtErrorf,
		"fmt.Fprintf":  fmtFprintf,
		"fmt.Fprint":   fmtFprint,
		"fmt.Fprintln": fmtFprintln,
		"fmt.Printf":   nop,
		"fmt.Println":  nop,
		"fmt.Print":    nop,
		"fmt.Appendf": func(fr *frame, a []value) (value, bool) {
			s := doSprintf(fr, cstr(a[1]), a[2].([]value))
			b, _ := strBytes(s)
			return append(a[0].([]value), b...), true
		},
	} {
		intrinsics[k] = v
	}
}

// methodString calls v's Error() or String() method if its type has one.
func methodString(fr *frame, a iface) (value, bool) {
	if a.t == nil {
		return nil, false
	}
	for _, name := range []string{"Error", "String"} {
		ms := fr.i.prog.MethodSets.MethodSet(a.t)
		sel := ms.Lookup(nil, name)
		if sel == nil {
			continue
		}
		sig := sel.Type().(*types.Signature)
		if sig.Params().Len() != 0 || sig.Results().Len() != 1 {
			continue
		}
		if b, ok := sig.Results().At(0).Type().Underlying().(*types.Basic); !ok || b.Kind() != types.String {
			continue
		}
		if p, ok := a.v.(*value); ok && p == nil {
			return "<nil>", true
		}
		fn := fr.i.prog.MethodValue(sel)
		if fn == nil {
			continue
		}
		return call(fr.i, fr, token.NoPos, fn, []value{a.v}), true
	}
	return nil, false
}

// nativeOf converts a concrete interpreter value to a native Go value for fmt.
func nativeOf(fr *frame, t types.Type, v value, depth int) interface{} {
	switch x := v.(type) {
	case nil:
		return nil
	case bool, int, int8, int16, int32, int64, uint, uint8, uint16, uint32, uint64, uintptr, float32, float64, complex64, complex128, string:
		return x
	case iface:
		if x.t == nil {
			return nil
		}
		if s, ok := methodString(fr, x); ok {
			if cs, ok := s.(string); ok {
				return stringer(cs)
			}
		}
		return nativeOf(fr, x.t, x.v, depth)
	case []value:
		if t != nil {
			if st, ok := t.Underlying().(*types.Slice); ok {
				if b, ok := st.Elem().Underlying().(*types.Basic); ok && b.Kind() == types.Uint8 {
					bs := make([]byte, len(x))
					for j, e := range x {
						c, ok := e.(uint8)
						if !ok {
							c = '?'
						}
						bs[j] = c
					}
					return bs
				}
			}
		}
		if depth > 3 {
			return "[...]"
		}
		out := make([]interface{}, len(x))
		var et types.Type
		if t != nil {
			if st, ok := t.Underlying().(*types.Slice); ok {
				et = st.Elem()
			}
		}
		for j, e := range x {
			out[j] = nativeOf(fr, et, e, depth+1)
		}
		return out
	case *value:
		if x == nil {
			return nil
		}
		return fmt.Sprintf("%p", x)
	case structure:
		if depth > 3 {
			return "{...}"
		}
		var parts []string
		var st *types.Struct
		if t != nil {
			st, _ = t.Underlying().(*types.Struct)
		}
		for j, f := range x {
			var ft types.Type
			if st != nil && j < st.NumFields() {
				ft = st.Field(j).Type()
			}
			parts = append(parts, fmt.Sprint(nativeOf(fr, ft, f, depth+1)))
		}
		return rawString("{" + strings.Join(parts, " ") + "}")
	case array:
		out := make([]interface{}, len(x))
		for j, e := range x {
			out[j] = nativeOf(fr, nil, e, depth+1)
		}
		return out
	case *gomap:
		return rawString(fmt.Sprintf("map[%d]", x.len()))
	case *ssa.Function, *closure:
		return rawString("func")
	}
	return rawString(fmt.Sprintf("<%T>", v))
}

type stringer string

func (s stringer) String() string { return string(s) }

type rawString string

func (s rawString) Format(f fmt.State, verb rune) { f.Write([]byte(s)) }

// doSprintf returns a string value (possibly symstr).
func doSprintf(fr *frame, format string, args []value) value {
	var out symstr
	emit := func(s string) {
		for j := 0; j < len(s); j++ {
			out = append(out, s[j])
		}
	}
	argi := 0
	for p := 0; p < len(format); {
		c := format[p]
		if c != '%' {
			out = append(out, c)
			p++
			continue
		}
		// parse verb spec
		q := p + 1
		for q < len(format) && strings.IndexByte("+-# 0123456789.*[]", format[q]) >= 0 {
			q++
		}
		if q >= len(format) {
			emit("%!(NOVERB)")
			break
		}
		spec := format[p : q+1]
		verb := format[q]
		p = q + 1
		if verb == '%' {
			out = append(out, uint8('%'))
			continue
		}
		nstar := strings.Count(spec, "*")
		var sub []interface{}
		for ; nstar > 0 && argi < len(args); nstar-- {
			sub = append(sub, nativeOf(fr, nil, args[argi], 0))
			argi++
		}
		if argi >= len(args) {
			emit("%!" + string(verb) + "(MISSING)")
			continue
		}
		a := args[argi]
		argi++
		av, _ := a.(iface)
		if verb == 'w' {
			verb = 'v'
			spec = spec[:len(spec)-1] + "v"
		}
		if verb == 'T' {
			if av.t == nil {
				emit("<nil>")
			} else {
				emit(av.t.String())
			}
			continue
		}
		// symbolic operand?
		if anySym(av.v, 2) || func() bool {
			if verb == 's' || verb == 'v' || verb == 'q' {
				if s, ok := methodString(fr, av); ok {
					if _, isSym := s.(symstr); isSym {
						av = iface{types.Typ[types.String], s}
						return true
					}
					av = iface{types.Typ[types.String], s}
				}
			}
			return false
		}() {
			switch x := av.v.(type) {
			case symstr:
				if verb == 'q' {
					out = append(out, '"')
					out = append(out, x...)
					out = append(out, '"')
				} else {
					out = append(out, x...)
				}
				continue
			case sym:
				if isIntKind(x.k) && (verb == 'd' || verb == 'v') {
					var s value
					if kindSigned(x.k) {
						s = fr.i.callNamed("strconv", "FormatInt", symConvNum(x, types.Int64), int(10))
					} else {
						s = fr.i.callNamed("strconv", "FormatUint", symConvNum(x, types.Uint64), int(10))
					}
					b, _ := strBytes(s)
					out = append(out, b...)
					continue
				}
				if x.k == types.Bool {
					if fr.i.truth(x) {
						emit("true")
					} else {
						emit("false")
					}
					continue
				}
				if x.k == types.Int32 && (verb == 'c' || verb == 'q') {
					enc := fr.i.callNamed("unicode/utf8", "AppendRune", []value(nil), x).([]value)
					if verb == 'q' {
						out = append(out, '\'')
					}
					out = append(out, enc...)
					if verb == 'q' {
						out = append(out, '\'')
					}
					continue
				}
			case []value:
				// []byte with symbolic content (other slices are formatted natively below)
				if (verb == 's' || verb == 'v') && isByteSlice(x) {
					out = append(out, x...)
					continue
				}
			}
			// fall back: concretise the operand (forks)
			cv := fr.i.concreteDeep(av.v)
			sub = append(sub, nativeOf(fr, av.t, cv, 0))
			emit(fmt.Sprintf(spec, sub...))
			continue
		}
		sub = append(sub, nativeOf(fr, av.t, av, 0))
		emit(fmt.Sprintf(spec, sub...))
	}
	if argi < len(args) {
		emit("%!(EXTRA)")
	}
	return normStr(out)
}

// concreteDeep forks symbolic scalars inside simple aggregates.
func (in *interpreter) concreteDeep(v value) value {
	switch x := v.(type) {
	case sym, symfix, symstr:
		return in.concreteVal(x)
	case []value:
		out := make([]value, len(x))
		for j, e := range x {
			out[j] = in.concreteDeep(e)
		}
		return out
	case iface:
		return iface{x.t, in.concreteDeep(x.v)}
	}
	return v
}

func fmtSprintf(fr *frame, a []value) (value, bool) {
	if ps := fr.i.ps; ps != nil && ps.captureFmt {
		id := len(ps.captures)
		ps.captures = append(ps.captures, a[1].([]value))
		return fmt.Sprintf("\x00F%d\x00", id), true
	}
	return doSprintf(fr, cstr(a[0]), a[1].([]value)), true
}

func sprintArgs(fr *frame, args []value, ln bool) value {
	var out symstr
	prevStr := false
	for j, a := range args {
		av, _ := a.(iface)
		var s value
		isStr := false
		if ms, ok := methodString(fr, av); ok {
			s = ms
		} else {
			switch x := av.v.(type) {
			case string:
				s, isStr = x, true
			case symstr:
				s, isStr = x, true
			default:
				if anySym(av.v, 2) {
					s = doSprintf(fr, "%v", []value{a})
				} else {
					s = fmt.Sprint(nativeOf(fr, av.t, av, 0))
				}
			}
		}
		if j > 0 && (ln || (!isStr && !prevStr)) {
			out = append(out, uint8(' '))
		}
		prevStr = isStr
		b, _ := strBytes(s)
		out = append(out, b...)
	}
	if ln {
		out = append(out, uint8('\n'))
	}
	return normStr(out)
}

func fmtSprint(fr *frame, a []value) (value, bool) {
	return sprintArgs(fr, a[0].([]value), false), true
}

func fmtSprintln(fr *frame, a []value) (value, bool) {
	return sprintArgs(fr, a[0].([]value), true), true
}

// writeTo calls w.Write(bytes) on an io.Writer interface value.
func writeTo(fr *frame, w value, s value) value {
	wi := w.(iface)
	if wi.t == nil {
		runtimePanic("invalid memory address or nil pointer dereference")
	}
	ms := fr.i.prog.MethodSets.MethodSet(wi.t)
	sel := ms.Lookup(nil, "Write")
	if sel == nil {
		panic(engineError{"Fprintf: writer without Write method: " + wi.t.String()})
	}
	fn := fr.i.prog.MethodValue(sel)
	b, _ := strBytes(s)
	buf := make([]value, len(b))
	copy(buf, b)
	return call(fr.i, fr, token.NoPos, fn, []value{wi.v, buf})
}

func fmtFprintf(fr *frame, a []value) (value, bool) {
	s := doSprintf(fr, cstr(a[1]), a[2].([]value))
	return writeTo(fr, a[0], s), true
}

func fmtFprint(fr *frame, a []value) (value, bool) {
	return writeTo(fr, a[0], sprintArgs(fr, a[1].([]value), false)), true
}

func fmtFprintln(fr *frame, a []value) (value, bool) {
	return writeTo(fr, a[0], sprintArgs(fr, a[1].([]value), true)), true
}

// fmtErrorf builds *fmt.wrapError when %w is present, else *errors.errorString.
func fmtErrorf(fr *frame, a []value) (value, bool) {
	format := cstr(a[0])
	args := a[1].([]value)
	msg := doSprintf(fr, format, args)
	if strings.Contains(format, "%w") {
		// find the operand of the first %w
		argi := 0
		for p := 0; p < len(format); p++ {
			if format[p] != '%' {
				continue
			}
			q := p + 1
			for q < len(format) && strings.IndexByte("+-# 0123456789.[]", format[q]) >= 0 {
				q++
			}
			if q >= len(format) {
				break
			}
			if format[q] == '%' {
				p = q
				continue
			}
			if format[q] == 'w' && argi < len(args) {
				if e, ok := args[argi].(iface); ok && e.t != nil {
					fmtPkg := fr.i.prog.ImportedPackage("fmt")
					wt := fmtPkg.Type("wrapError")
					if wt != nil {
						var cell value = structure{msg, e}
						return iface{types.NewPointer(wt.Type()), &cell}, true
					}
				}
				break
			}
			argi++
			p = q
		}
	}
	return fr.i.callNamed("errors", "New", msg), true
}

// isByteSlice: every element is a concrete or symbolic uint8.
func isByteSlice(x []value) bool {
	for _, e := range x {
		switch b := e.(type) {
		case uint8:
		case sym:
			if b.k != types.Uint8 {
				return false
			}
		default:
			return false
		}
	}
	return true
}
