package interp

import (
	"fmt"
	"go/types"
)

// mustDeref returns the type of the variable pointed to by t.
func mustDeref(t types.Type) types.Type {
	if p, ok := t.Underlying().(*types.Pointer); ok {
		return p.Elem()
	}
	panic(fmt.Sprintf("%v is not a pointer", t))
}
