package interp

// Loading, worker pool and exhaustive path exploration of a harness entry.

import (
	"fmt"
	"go/token"
	"go/types"
	"os"
	"runtime"
	"runtime/debug"
	"sort"
	"strings"
	"sync"
	"time"

	"golang.org/x/tools/go/packages"
	"golang.org/x/tools/go/ssa"
	"golang.org/x/tools/go/ssa/ssautil"
)

type Program struct {
	sh   *shared
	Prog *ssa.Program
	Pkgs map[string]*ssa.Package
	LoadS float64
}

type LoadConfig struct {
	Dir      string
	Patterns []string
	Overlay  map[string][]byte
	Env      []string
}

func Load(cfg LoadConfig) (*Program, error) {
	t0 := time.Now()
	pc := &packages.Config{
		Mode:    packages.LoadAllSyntax,
		Dir:     cfg.Dir,
		Overlay: cfg.Overlay,
		Env:     cfg.Env,
	}
	initial, err := packages.Load(pc, cfg.Patterns...)
	if err != nil {
		return nil, err
	}
	var errs []string
	packages.Visit(initial, nil, func(p *packages.Package) {
		for _, e := range p.Errors {
			errs = append(errs, e.Error())
		}
	})
	if len(errs) > 0 {
		if len(errs) > 20 {
			errs = errs[:20]
		}
		return nil, fmt.Errorf("package load errors:\n%s", strings.Join(errs, "\n"))
	}
	prog, pkgs := ssautil.AllPackages(initial, ssa.InstantiateGenerics|ssa.SanityCheckFunctions&0)
	prog.Build()
	p := &Program{Prog: prog, Pkgs: map[string]*ssa.Package{}}
	for j, sp := range pkgs {
		if sp != nil {
			p.Pkgs[initial[j].PkgPath] = sp
		}
	}
	// the runtime package must be present
	if prog.ImportedPackage("runtime") == nil {
		return nil, fmt.Errorf("runtime package not loaded")
	}
	p.sh = newShared(prog, types.SizesFor("gc", "amd64"))
	p.LoadS = time.Since(t0).Seconds()
	return p, nil
}

type HarnessConfig struct {
	Pkg       string // import path
	Func      string
	Budget    int64 // interpreted instructions per path
	Workers   int
	Solver    string
	TimeoutMs int
	MaxPaths  int
	Wall      time.Duration
	MaxViolations int
	InitRun   []string // extra package path prefixes whose init is run
	InitSkip  []string // extra package path prefixes whose init is skipped
	Seed      int64
	Trace     bool
	Params    map[string]int
	// Subst maps the full name of a function of the program (as printed by
	// go/ssa, e.g. "compress/flate.NewWriterDict" or "(*os.File).Write") to
	// the name of a Go function of the harness package with the same
	// signature (receiver first) that is executed in its place.
	Subst map[string]string
	// Sched enables the cooperative scheduler (goroutines, channels, select,
	// mutexes and wait groups of the program with the schedule a symbolic choice).
	Sched bool
}

type PathSample struct {
	Draws     []Draw   `json:"values"`
	Decisions int      `json:"decisions"`
	Steps     int64    `json:"steps"`
	Observed  []string `json:"observed,omitempty"`
	Harness   string   `json:"harness"`
}

type Result struct {
	Harness      string
	Paths        int // completed feasible paths
	Infeasible   int
	Hangs        int // instruction budget exceeded
	Unknown      int // paths abandoned on solver unknown
	UnknownQueries int
	DepthAborts  int
	Pending      int // unexplored prefixes when stopped
	SymDecisions int
	Obligations  int
	Discharged   int
	Assumes      int
	Violations   []Violation
	Covers       map[string]int
	Funcs        map[string]bool
	Solver       solverStats
	Samples      []PathSample
	Exhaustive   bool
	WallS        float64
	MaxSteps     int64
	TotalSteps   int64
	EngineErr    string
	SharedWrites map[string]int
	DomDecided   int // branch decisions settled by byte-domain enumeration
}

var defaultInitSkip = []string{
	"runtime", "internal/", "sync", "reflect", "errors", "os", "time", "net", "fmt", "math/big", "math/rand",
	"encoding/json", "encoding/xml", "encoding/gob", "log", "syscall", "context", "testing", "flag",
	"crypto", "hash", "compress", "image", "html/template", "text/template", "mime",
	"database", "debug", "go/", "embed", "unique", "iter", "weak", "expvar", "plugin", "archive", "text/tabwriter",
	"golang.org/x/", "github.com/", "gonum.org/", "rsc.io/", "nhooyr.io/", "cdr.dev/", "gopkg.in/",
	"oss.terrastruct.com/d2/d2renderers", "oss.terrastruct.com/d2/lib/textmeasure", "oss.terrastruct.com/d2/lib/jsrunner",
	"oss.terrastruct.com/d2/d2layouts/d2dagrelayout", "oss.terrastruct.com/d2/d2layouts/d2elklayout",
	"oss.terrastruct.com/d2/d2plugin", "oss.terrastruct.com/d2/lib/imgbundler", "oss.terrastruct.com/d2/lib/png",
	"oss.terrastruct.com/d2/lib/pdf", "oss.terrastruct.com/d2/lib/pptx", "oss.terrastruct.com/d2/lib/xgif",
	"oss.terrastruct.com/util-go/xmain", "oss.terrastruct.com/util-go/cmdlog", "oss.terrastruct.com/util-go/xos",
	"oss.terrastruct.com/util-go/xexec", "oss.terrastruct.com/util-go/xhttp", "oss.terrastruct.com/util-go/xbrowser",
	"oss.terrastruct.com/util-go/xrand", "oss.terrastruct.com/d2/lib/log", "oss.terrastruct.com/d2/lib/simplelog",
}

func matchPrefix(path string, list []string) bool {
	for _, p := range list {
		if path == p || strings.HasPrefix(path, p) && (strings.HasSuffix(p, "/") || len(path) > len(p) && path[len(p)] == '/') {
			return true
		}
	}
	return false
}

var defaultInitRun = []string{
	"golang.org/x/text/encoding", "golang.org/x/text/transform", "golang.org/x/text/internal/utf8internal",
	"golang.org/x/text/runes",
}

func (hc *HarnessConfig) skipInit(path string) bool {
	if path == hc.Pkg {
		return false
	}
	if matchPrefix(path, hc.InitRun) || matchPrefix(path, defaultInitRun) {
		return false
	}
	if matchPrefix(path, hc.InitSkip) {
		return true
	}
	return matchPrefix(path, defaultInitSkip)
}

type explorer struct {
	p     *Program
	hc    HarnessConfig
	fn    *ssa.Function
	mu    sync.Mutex
	cond  *sync.Cond
	stack []workItem
	active int
	stop  bool
	res   Result
	deadline time.Time
	started int
}

func (p *Program) Explore(hc HarnessConfig) Result {
	if hc.Workers <= 0 {
		hc.Workers = runtime.NumCPU()
	}
	if hc.Budget <= 0 {
		hc.Budget = 20_000_000
	}
	if hc.Solver == "" {
		hc.Solver = "z3"
	}
	if hc.TimeoutMs <= 0 {
		hc.TimeoutMs = 120000
	}
	if hc.MaxViolations <= 0 {
		hc.MaxViolations = 3
	}
	pkg := p.Prog.ImportedPackage(hc.Pkg)
	ex := &explorer{p: p, hc: hc}
	ex.res.Harness = hc.Func
	ex.res.Covers = map[string]int{}
	ex.res.Funcs = map[string]bool{}
	ex.res.SharedWrites = map[string]int{}
	if pkg == nil {
		ex.res.EngineErr = "package not loaded: " + hc.Pkg
		return ex.res
	}
	ex.fn = pkg.Func(hc.Func)
	if ex.fn == nil {
		ex.res.EngineErr = "harness function not found: " + hc.Pkg + "." + hc.Func
		return ex.res
	}
	ex.cond = sync.NewCond(&ex.mu)
	ex.stack = []workItem{{}}
	t0 := time.Now()
	if hc.Wall > 0 {
		ex.deadline = t0.Add(hc.Wall)
	}
	var wg sync.WaitGroup
	for w := 0; w < hc.Workers; w++ {
		wg.Add(1)
		go func(w int) {
			defer wg.Done()
			ex.worker(w, pkg)
		}(w)
	}
	wg.Wait()
	ex.res.WallS = time.Since(t0).Seconds()
	ex.res.Pending = len(ex.stack)
	ex.res.Exhaustive = ex.res.Pending == 0 && ex.res.Unknown == 0 && ex.res.UnknownQueries == 0 &&
		ex.res.Hangs == 0 && ex.res.DepthAborts == 0 && ex.res.EngineErr == "" && len(ex.res.Violations) == 0
	return ex.res
}

func (ex *explorer) fail(msg string) {
	ex.mu.Lock()
	if ex.res.EngineErr == "" {
		ex.res.EngineErr = msg
	}
	ex.stop = true
	ex.cond.Broadcast()
	ex.mu.Unlock()
}

// take pops a work item, waiting while other workers may still produce some.
func (ex *explorer) take() (workItem, bool) {
	ex.mu.Lock()
	defer ex.mu.Unlock()
	for {
		if ex.stop {
			return workItem{}, false
		}
		if !ex.deadline.IsZero() && time.Now().After(ex.deadline) {
			ex.stop = true
			ex.cond.Broadcast()
			return workItem{}, false
		}
		if ex.hc.MaxPaths > 0 && ex.started >= ex.hc.MaxPaths {
			ex.stop = true
			ex.cond.Broadcast()
			return workItem{}, false
		}
		if n := len(ex.stack); n > 0 {
			it := ex.stack[n-1]
			ex.stack = ex.stack[:n-1]
			ex.active++
			ex.started++
			return it, true
		}
		if ex.active == 0 {
			ex.cond.Broadcast()
			return workItem{}, false
		}
		ex.cond.Wait()
	}
}

func (ex *explorer) worker(w int, pkg *ssa.Package) {
	in := newInterpreter(ex.p.sh)
	in.initSkip = ex.hc.skipInit
	if len(ex.hc.Subst) > 0 {
		in.subst = map[string]*ssa.Function{}
		for target, name := range ex.hc.Subst {
			f := pkg.Func(name)
			if f == nil {
				ex.fail("subst: harness function " + name + " not found")
				return
			}
			in.subst[target] = f
		}
	}
	if ex.hc.Trace {
		in.mode |= EnableTracing
	}
	sol, err := newSolver(ex.hc.Solver, ex.hc.TimeoutMs)
	if err != nil {
		ex.fail("cannot start solver: " + err.Error())
		return
	}
	defer sol.close()
	// package initialisation, once per worker, concrete
	if msg := runInit(in, pkg); msg != "" {
		ex.fail("init: " + msg)
		return
	}
	in.logging = true
	in.funcsSeen = map[*ssa.Function]bool{}
	for {
		item, ok := ex.take()
		if !ok {
			break
		}
		ex.runPath(in, sol, item)
	}
	ex.mu.Lock()
	st := sol.stats
	ex.res.Solver.Queries += st.Queries
	ex.res.Solver.Sat += st.Sat
	ex.res.Solver.Unsat += st.Unsat
	ex.res.Solver.Unknown += st.Unknown
	ex.res.Solver.Errors += st.Errors
	ex.res.Solver.TimeS += st.TimeS
	if st.MaxQuery > ex.res.Solver.MaxQuery {
		ex.res.Solver.MaxQuery = st.MaxQuery
	}
	for fn := range in.funcsSeen {
		ex.res.Funcs[fn.String()] = true
	}
	ex.mu.Unlock()
}

func runInit(in *interpreter, pkg *ssa.Package) (msg string) {
	defer func() {
		if p := recover(); p != nil {
			msg = fmt.Sprintf("%v\n  at %s", panicString(p), in.initPanicPos)
		}
	}()
	in.ps = nil
	call(in, nil, token.NoPos, pkg.Func("init"), nil)
	// poison initialised globals of packages whose init never ran
	for _, p := range in.prog.AllPackages() {
		g, ok := p.Members["init$guard"].(*ssa.Global)
		if !ok {
			continue
		}
		if b, _ := (*in.globals[g]).(bool); !b {
			in.poisonPackage(p)
		}
	}
	return ""
}

func panicString(p interface{}) string {
	switch p := p.(type) {
	case targetPanic:
		return "panic: " + toString(p.v)
	case engineError:
		return p.Error()
	case pathAbort:
		return "path abort: " + p.reason
	case runtime.Error:
		return "panic: " + p.Error()
	case string:
		return "panic: " + p
	case error:
		return "panic: " + p.Error()
	}
	return fmt.Sprintf("panic: %v", p)
}

func (ex *explorer) runPath(in *interpreter, sol *solver, item workItem) {
	ps := &pathState{
		i: in, tt: newTermTable(), sol: sol, prefix: item.prefix, budget: ex.hc.Budget,
		covers: map[string]bool{}, harness: ex.hc.Func, params: ex.hc.Params,
		dom: map[*Term]*byteDom{}, entangled: map[*Term]bool{},
	}
	if len(item.prefix) == 0 {
		ps.model = map[string]uint64{}
	} else if item.model != nil {
		ps.model = item.model
	}
	in.ps = ps
	in.depth = 0
	if ex.hc.Sched {
		pre := 2
		if v, ok := ex.hc.Params["PREEMPT"]; ok {
			pre = v
		}
		ps.sched = newSched(in, pre)
		defer ps.sched.finish()
	}
	sol.beginPath()
	var outcome string // "", "violation", "infeasible", "budget", "unknown", "depth", "engine"
	var viol *Violation
	var engineMsg string
	func() {
		defer func() {
			p := recover()
			if p == nil {
				return
			}
			switch p := p.(type) {
			case violationPanic:
				outcome = "violation"
				viol = &Violation{Harness: ex.hc.Func, Msg: p.msg, Draws: ps.currentDraws()}
			case pathAbort:
				outcome = p.reason
				if p.reason == "depth" {
					// unbounded recursion in the code under test: a candidate stack overflow, handled like a candidate hang
					outcome = "budget"
				}
				if outcome == "budget" {
					// candidate hang: report with the current model
					if ps.model == nil {
						func() {
							defer func() { recover() }()
							ps.ensureModel()
						}()
					}
					if ps.model != nil {
						msg := "instruction budget exceeded (candidate hang)"
						if p.reason == "depth" {
							msg = "call depth limit exceeded (candidate unbounded recursion)"
						}
						viol = &Violation{Harness: ex.hc.Func, Msg: msg, Draws: ps.currentDraws(), Hang: true, Pos: ps.lastPos}
					}
				}
			case engineError:
				outcome = "engine"
				engineMsg = p.msg
			default:
				// an escaping target panic is a crash of the code under test
				if re, ok := p.(runtime.Error); ok {
					msg := re.Error()
					if strings.Contains(msg, "interface conversion") || strings.Contains(msg, "invalid memory address") && false {
						outcome = "engine"
						engineMsg = msg + "\n" + string(debug.Stack())
						return
					}
				}
				if _, ok := p.(targetPanic); !ok {
					if _, ok := p.(string); !ok {
						if _, ok := p.(runtime.Error); !ok {
							outcome = "engine"
							engineMsg = fmt.Sprintf("%v\n%s", p, debug.Stack())
							return
						}
					}
				}
				outcome = "violation"
				func() {
					defer func() {
						if recover() != nil {
							outcome = "unknown"
						}
					}()
					ps.ensureModel()
				}()
				if outcome == "violation" {
					viol = &Violation{Harness: ex.hc.Func, Msg: "escaping " + panicString(p), Draws: ps.currentDraws(), Panic: true, Pos: ps.lastPos}
				}
			}
		}()
		call(in, nil, token.NoPos, ex.fn, nil)
	}()
	sol.endPath()
	in.rollback()
	in.ps = nil

	ex.mu.Lock()
	defer ex.mu.Unlock()
	ex.active--
	ex.res.SymDecisions += ps.symDecisions
	ex.res.Obligations += ps.obligations
	ex.res.Discharged += ps.discharged
	ex.res.Assumes += ps.assumes
	ex.res.UnknownQueries += ps.unknowns
	ex.res.DomDecided += ps.domDecided
	ex.res.TotalSteps += ps.steps
	if ps.steps > ex.res.MaxSteps {
		ex.res.MaxSteps = ps.steps
	}
	switch outcome {
	case "":
		ex.res.Paths++
		for c := range ps.covers {
			ex.res.Covers[c]++
		}
		if len(ex.res.Samples) < 6 || (ex.res.Paths%97 == 0 && len(ex.res.Samples) < 24) {
			func() {
				defer func() { recover() }()
				if ps.model == nil {
					ps.ensureModel()
				}
				ex.res.Samples = append(ex.res.Samples, PathSample{Draws: ps.currentDraws(), Decisions: len(ps.decisions), Steps: ps.steps, Observed: ps.observed, Harness: ex.hc.Func})
			}()
		}
	case "violation":
		ex.res.Paths++
		ex.res.Violations = append(ex.res.Violations, *viol)
		if len(ex.res.Violations) >= ex.hc.MaxViolations {
			ex.stop = true
		}
	case "infeasible":
		ex.res.Infeasible++
	case "budget":
		ex.res.Hangs++
		if viol != nil {
			ex.res.Violations = append(ex.res.Violations, *viol)
			if len(ex.res.Violations) >= ex.hc.MaxViolations {
				ex.stop = true
			}
		}
	case "unknown":
		ex.res.Unknown++
	case "depth":
		ex.res.DepthAborts++
	case "engine":
		if ex.res.EngineErr == "" {
			ex.res.EngineErr = engineMsg + "\n  decisions=" + fmt.Sprint(len(ps.decisions)) + " draws=" + fmt.Sprint(len(ps.draws))
		}
		ex.stop = true
	}
	if outcome != "engine" {
		ex.stack = append(ex.stack, ps.forks...)
	}
	ex.cond.Broadcast()
}

func (r *Result) FuncList(prefix string) []string {
	var out []string
	for f := range r.Funcs {
		if strings.Contains(f, prefix) {
			out = append(out, f)
		}
	}
	sort.Strings(out)
	return out
}

func init() {
	if os.Getenv("GOGC") == "" {
		debug.SetGCPercent(400)
	}
}
