package interp

// SMT terms: hash-consed DAG over Bool, BitVec and FloatingPoint(11,53),
// an SMT-LIB2 printer and a concrete evaluator (used for model-guided
// branching and for validating the translation against native runs).

import (
	"fmt"
	"math"
	"math/bits"
	"strconv"
	"strings"
)

type sortKind uint8

const (
	sBool sortKind = iota
	sBV
	sFP // float64 only
)

type tsort struct {
	k sortKind
	w int // BV width
}

func (s tsort) String() string {
	switch s.k {
	case sBool:
		return "Bool"
	case sBV:
		return fmt.Sprintf("(_ BitVec %d)", s.w)
	}
	return "(_ FloatingPoint 11 53)"
}

var boolSort = tsort{k: sBool}
var fpSort = tsort{k: sFP}

func bvSort(w int) tsort { return tsort{k: sBV, w: w} }

type top uint8

const (
	oConst top = iota // BV const (k), Bool const (k=0/1), FP const (k=bits)
	oVar
	oNot
	oAnd
	oOr
	oXorB
	oEq
	oIte
	oBvAdd
	oBvSub
	oBvMul
	oBvUDiv
	oBvSDiv
	oBvURem
	oBvSRem
	oBvAnd
	oBvOr
	oBvXor
	oBvNot
	oBvNeg
	oBvShl
	oBvLShr
	oBvAShr
	oBvULt
	oBvULe
	oBvSLt
	oBvSLe
	oExtract // k=hi, k2=lo
	oZext    // to sort.w
	oSext
	oConcat
	// FP
	oFpAdd
	oFpSub
	oFpMul
	oFpDiv
	oFpNeg
	oFpAbs
	oFpLt
	oFpLe
	oFpEq // IEEE ==
	oFpIsNaN
	oFpIsInf
	oFpSqrt
	oFpRTI    // round to integral, k = mode (0 RNE(even),1 RTP(ceil),2 RTN(floor),3 RTZ(trunc),4 RNA)
	oFpFromS  // signed BV -> FP (RNE)
	oFpFromU  // unsigned BV -> FP (RNE)
	oFpToS    // FP -> signed BV (RTZ), sort.w
	oFpToU    // FP -> unsigned BV (RTZ)
	oFpFromBits // BV64 -> FP reinterpret
	oFpMin
	oFpMax
)

var opNames = map[top]string{
	oNot: "not", oAnd: "and", oOr: "or", oXorB: "xor", oEq: "=", oIte: "ite",
	oBvAdd: "bvadd", oBvSub: "bvsub", oBvMul: "bvmul", oBvUDiv: "bvudiv", oBvSDiv: "bvsdiv",
	oBvURem: "bvurem", oBvSRem: "bvsrem", oBvAnd: "bvand", oBvOr: "bvor", oBvXor: "bvxor",
	oBvNot: "bvnot", oBvNeg: "bvneg", oBvShl: "bvshl", oBvLShr: "bvlshr", oBvAShr: "bvashr",
	oBvULt: "bvult", oBvULe: "bvule", oBvSLt: "bvslt", oBvSLe: "bvsle", oConcat: "concat",
	oFpAdd: "fp.add RNE", oFpSub: "fp.sub RNE", oFpMul: "fp.mul RNE", oFpDiv: "fp.div RNE",
	oFpNeg: "fp.neg", oFpAbs: "fp.abs", oFpLt: "fp.lt", oFpLe: "fp.leq", oFpEq: "fp.eq",
	oFpIsNaN: "fp.isNaN", oFpIsInf: "fp.isInfinite", oFpSqrt: "fp.sqrt RNE",
	oFpMin: "fp.min", oFpMax: "fp.max",
}

type Term struct {
	op   top
	sort tsort
	args []*Term
	k    uint64
	k2   int
	name string
	id   int
	tt   *termTable
}

// termTable hash-conses terms for one path.
type termTable struct {
	m     map[string]*Term
	terms []*Term
	nvars int
	sr    map[*Term]ival
	ur    map[*Term]ival
	varS  map[*Term]ival
	varU  map[*Term]ival
	supp  map[*Term]suppSet
}

func newTermTable() *termTable {
	return &termTable{m: make(map[string]*Term), sr: map[*Term]ival{}, ur: map[*Term]ival{},
		varS: map[*Term]ival{}, varU: map[*Term]ival{}, supp: map[*Term]suppSet{}}
}

func (tt *termTable) mk(op top, s tsort, k uint64, k2 int, name string, args ...*Term) *Term {
	var sb strings.Builder
	sb.WriteByte(byte(op))
	sb.WriteByte(byte(s.k))
	sb.WriteString(strconv.Itoa(s.w))
	sb.WriteByte(':')
	sb.WriteString(strconv.FormatUint(k, 16))
	sb.WriteByte(':')
	sb.WriteString(strconv.Itoa(k2))
	sb.WriteByte(':')
	sb.WriteString(name)
	for _, a := range args {
		sb.WriteByte(',')
		sb.WriteString(strconv.Itoa(a.id))
	}
	key := sb.String()
	if t, ok := tt.m[key]; ok {
		return t
	}
	t := &Term{op: op, sort: s, args: args, k: k, k2: k2, name: name, id: len(tt.terms), tt: tt}
	tt.terms = append(tt.terms, t)
	tt.m[key] = t
	return t
}

func mask(w int) uint64 {
	if w >= 64 {
		return ^uint64(0)
	}
	return (uint64(1) << uint(w)) - 1
}

func signExt(v uint64, w int) int64 {
	if w >= 64 {
		return int64(v)
	}
	sh := uint(64 - w)
	return int64(v<<sh) >> sh
}

func (t *Term) isConst() bool { return t.op == oConst }

func (tt *termTable) bvConst(v uint64, w int) *Term {
	return tt.mk(oConst, bvSort(w), v&mask(w), 0, "")
}
func (tt *termTable) boolConst(b bool) *Term {
	if b {
		return tt.mk(oConst, boolSort, 1, 0, "")
	}
	return tt.mk(oConst, boolSort, 0, 0, "")
}
func (tt *termTable) fpConst(f float64) *Term {
	return tt.mk(oConst, fpSort, math.Float64bits(f), 0, "")
}
func (tt *termTable) newVar(name string, s tsort) *Term {
	tt.nvars++
	return tt.mk(oVar, s, 0, 0, name)
}

// evalConstOp computes op on constant operands; ok=false if not foldable.
func evalOp(op top, s tsort, k uint64, k2 int, a []uint64, as []tsort) (uint64, bool) {
	b2u := func(b bool) uint64 {
		if b {
			return 1
		}
		return 0
	}
	w := s.w
	var aw int
	if len(as) > 0 {
		aw = as[0].w
	}
	f := func(i int) float64 { return math.Float64frombits(a[i]) }
	fu := func(x float64) uint64 { return math.Float64bits(x) }
	switch op {
	case oNot:
		return a[0] ^ 1, true
	case oAnd:
		r := uint64(1)
		for _, x := range a {
			r &= x
		}
		return r, true
	case oOr:
		r := uint64(0)
		for _, x := range a {
			r |= x
		}
		return r, true
	case oXorB:
		return a[0] ^ a[1], true
	case oEq:
		if as[0].k == sFP {
			// SMT = on FP is structural except all NaNs equal
			x, y := f(0), f(1)
			if x != x && y != y {
				return 1, true
			}
			return b2u(a[0] == a[1]), true
		}
		return b2u(a[0] == a[1]), true
	case oIte:
		if a[0] != 0 {
			return a[1], true
		}
		return a[2], true
	case oBvAdd:
		return (a[0] + a[1]) & mask(w), true
	case oBvSub:
		return (a[0] - a[1]) & mask(w), true
	case oBvMul:
		return (a[0] * a[1]) & mask(w), true
	case oBvUDiv:
		if a[1] == 0 {
			return mask(w), true
		}
		return a[0] / a[1], true
	case oBvURem:
		if a[1] == 0 {
			return a[0], true
		}
		return a[0] % a[1], true
	case oBvSDiv:
		x, y := signExt(a[0], w), signExt(a[1], w)
		if y == 0 {
			if x < 0 {
				return 1, true
			}
			return mask(w), true
		}
		if y == -1 {
			return uint64(-x) & mask(w), true
		}
		return uint64(x/y) & mask(w), true
	case oBvSRem:
		x, y := signExt(a[0], w), signExt(a[1], w)
		if y == 0 {
			return a[0], true
		}
		if y == -1 {
			return 0, true
		}
		return uint64(x%y) & mask(w), true
	case oBvAnd:
		return a[0] & a[1], true
	case oBvOr:
		return a[0] | a[1], true
	case oBvXor:
		return a[0] ^ a[1], true
	case oBvNot:
		return ^a[0] & mask(w), true
	case oBvNeg:
		return (-a[0]) & mask(w), true
	case oBvShl:
		if a[1] >= uint64(w) {
			return 0, true
		}
		return (a[0] << a[1]) & mask(w), true
	case oBvLShr:
		if a[1] >= uint64(w) {
			return 0, true
		}
		return a[0] >> a[1], true
	case oBvAShr:
		x := signExt(a[0], w)
		sh := a[1]
		if sh >= uint64(w) {
			sh = uint64(w - 1)
		}
		return uint64(x>>sh) & mask(w), true
	case oBvULt:
		return b2u(a[0] < a[1]), true
	case oBvULe:
		return b2u(a[0] <= a[1]), true
	case oBvSLt:
		return b2u(signExt(a[0], aw) < signExt(a[1], aw)), true
	case oBvSLe:
		return b2u(signExt(a[0], aw) <= signExt(a[1], aw)), true
	case oExtract:
		return (a[0] >> uint(k2)) & mask(int(k)-k2+1), true
	case oZext:
		return a[0], true
	case oSext:
		return uint64(signExt(a[0], aw)) & mask(w), true
	case oConcat:
		return (a[0]<<uint(as[1].w) | a[1]) & mask(w), true
	case oFpAdd:
		return fu(f(0) + f(1)), true
	case oFpSub:
		return fu(f(0) - f(1)), true
	case oFpMul:
		return fu(f(0) * f(1)), true
	case oFpDiv:
		return fu(f(0) / f(1)), true
	case oFpNeg:
		return fu(-f(0)), true
	case oFpAbs:
		return fu(math.Abs(f(0))), true
	case oFpLt:
		return b2u(f(0) < f(1)), true
	case oFpLe:
		return b2u(f(0) <= f(1)), true
	case oFpEq:
		return b2u(f(0) == f(1)), true
	case oFpIsNaN:
		return b2u(f(0) != f(0)), true
	case oFpIsInf:
		return b2u(math.IsInf(f(0), 0)), true
	case oFpSqrt:
		return fu(math.Sqrt(f(0))), true
	case oFpRTI:
		switch k {
		case 0:
			return fu(math.RoundToEven(f(0))), true
		case 1:
			return fu(math.Ceil(f(0))), true
		case 2:
			return fu(math.Floor(f(0))), true
		case 3:
			return fu(math.Trunc(f(0))), true
		case 4:
			return fu(math.Round(f(0))), true
		}
	case oFpFromS:
		return fu(float64(signExt(a[0], aw))), true
	case oFpFromU:
		return fu(float64(a[0])), true
	case oFpToS:
		x := f(0)
		if x != x || math.IsInf(x, 0) {
			return 0, false
		}
		t := math.Trunc(x)
		lim := math.Ldexp(1, w-1)
		if t >= lim || t < -lim {
			return 0, false
		}
		return uint64(int64(t)) & mask(w), true
	case oFpToU:
		x := f(0)
		if x != x || math.IsInf(x, 0) {
			return 0, false
		}
		t := math.Trunc(x)
		if t < 0 || t >= math.Ldexp(1, w) {
			return 0, false
		}
		return uint64(t) & mask(w), true
	case oFpFromBits:
		return a[0], true
	case oFpMin:
		x, y := f(0), f(1)
		if x != x {
			return a[1], true
		}
		if y != y {
			return a[0], true
		}
		if x == 0 && y == 0 {
			return 0, false // sign of zero unspecified in SMT-LIB
		}
		return fu(math.Min(x, y)), true
	case oFpMax:
		x, y := f(0), f(1)
		if x != x {
			return a[1], true
		}
		if y != y {
			return a[0], true
		}
		if x == 0 && y == 0 {
			return 0, false
		}
		return fu(math.Max(x, y)), true
	}
	return 0, false
}

// op builds a term with constant folding and light simplification.
func (tt *termTable) op(op top, s tsort, k uint64, k2 int, args ...*Term) *Term {
	allc := true
	for _, a := range args {
		if !a.isConst() {
			allc = false
			break
		}
	}
	if allc {
		var av [3]uint64
		var as [3]tsort
		a, ss := av[:0], as[:0]
		for _, x := range args {
			a = append(a, x.k)
			ss = append(ss, x.sort)
		}
		if v, ok := evalOp(op, s, k, k2, a, ss); ok {
			return tt.mk(oConst, s, v&maskOf(s), 0, "")
		}
	}
	// simplifications
	switch op {
	case oNot:
		if args[0].op == oNot {
			return args[0].args[0]
		}
	case oAnd:
		var out []*Term
		for _, a := range args {
			if a.isConst() {
				if a.k == 0 {
					return a
				}
				continue
			}
			if a.op == oAnd {
				out = append(out, a.args...)
			} else {
				out = append(out, a)
			}
		}
		out = dedup(out)
		if len(out) == 0 {
			return tt.boolConst(true)
		}
		if len(out) == 1 {
			return out[0]
		}
		args = out
	case oOr:
		var out []*Term
		for _, a := range args {
			if a.isConst() {
				if a.k == 1 {
					return a
				}
				continue
			}
			if a.op == oOr {
				out = append(out, a.args...)
			} else {
				out = append(out, a)
			}
		}
		out = dedup(out)
		if len(out) == 0 {
			return tt.boolConst(false)
		}
		if len(out) == 1 {
			return out[0]
		}
		args = out
	case oEq:
		if args[0] == args[1] && args[0].sort.k != sFP {
			return tt.boolConst(true)
		}
		if args[0].sort.k == sBool {
			if args[1].isConst() {
				if args[1].k == 1 {
					return args[0]
				}
				return tt.op(oNot, boolSort, 0, 0, args[0])
			}
			if args[0].isConst() {
				if args[0].k == 1 {
					return args[1]
				}
				return tt.op(oNot, boolSort, 0, 0, args[1])
			}
		}
		// ite(c,a,b) == const where a,b const
		if args[1].isConst() && args[0].op == oIte && args[0].args[1].isConst() && args[0].args[2].isConst() {
			c, a, b := args[0].args[0], args[0].args[1], args[0].args[2]
			ea, eb := a.k == args[1].k, b.k == args[1].k
			switch {
			case ea && eb:
				return tt.boolConst(true)
			case ea:
				return c
			case eb:
				return tt.op(oNot, boolSort, 0, 0, c)
			default:
				return tt.boolConst(false)
			}
		}
		// zext(x) == const
		if args[1].isConst() && args[0].op == oZext {
			x := args[0].args[0]
			if args[1].k > mask(x.sort.w) {
				return tt.boolConst(false)
			}
			return tt.op(oEq, boolSort, 0, 0, x, tt.bvConst(args[1].k, x.sort.w))
		}
	case oIte:
		if args[0].isConst() {
			if args[0].k == 1 {
				return args[1]
			}
			return args[2]
		}
		if args[1] == args[2] {
			return args[1]
		}
		if s.k == sBool && args[1].isConst() && args[2].isConst() {
			if args[1].k == 1 {
				return args[0]
			}
			return tt.op(oNot, boolSort, 0, 0, args[0])
		}
	case oBvAdd, oBvOr, oBvXor:
		if args[1].isConst() && args[1].k == 0 {
			return args[0]
		}
		if args[0].isConst() && args[0].k == 0 {
			return args[1]
		}
	case oBvSub, oBvShl, oBvLShr, oBvAShr:
		if args[1].isConst() && args[1].k == 0 {
			return args[0]
		}
	case oBvAnd:
		if args[1].isConst() {
			if args[1].k == 0 {
				return args[1]
			}
			if args[1].k == mask(s.w) {
				return args[0]
			}
		}
		if args[0].isConst() {
			if args[0].k == 0 {
				return args[0]
			}
			if args[0].k == mask(s.w) {
				return args[1]
			}
		}
	case oBvMul:
		if args[1].isConst() && args[1].k == 1 {
			return args[0]
		}
		if args[0].isConst() && args[0].k == 1 {
			return args[1]
		}
		if (args[1].isConst() && args[1].k == 0) || (args[0].isConst() && args[0].k == 0) {
			return tt.bvConst(0, s.w)
		}
	case oZext, oSext:
		if args[0].sort.w == s.w {
			return args[0]
		}
		if args[0].op == oZext {
			return tt.op(oZext, s, 0, 0, args[0].args[0])
		}
	case oExtract:
		if k2 == 0 && int(k) == args[0].sort.w-1 {
			return args[0]
		}
		// extract low bits of zext/sext(x) where x fits
		if (args[0].op == oZext || args[0].op == oSext) && k2 == 0 {
			x := args[0].args[0]
			if int(k)+1 == x.sort.w {
				return x
			}
			if int(k)+1 < x.sort.w {
				return tt.op(oExtract, s, k, k2, x)
			}
			if args[0].op == oZext {
				return tt.op(oZext, s, 0, 0, x)
			}
		}
	case oBvULt:
		if args[1].isConst() && args[1].k == 0 {
			return tt.boolConst(false)
		}
		// zext(x) < const beyond range
		if args[1].isConst() && args[0].op == oZext && args[1].k > mask(args[0].args[0].sort.w) {
			return tt.boolConst(true)
		}
	case oBvULe:
		if args[0].isConst() && args[0].k == 0 {
			return tt.boolConst(true)
		}
	case oBvSLt:
		if args[0].op == oZext && args[1].isConst() && args[0].args[0].sort.w < args[0].sort.w {
			c := signExt(args[1].k, args[1].sort.w)
			if c <= 0 {
				return tt.boolConst(false)
			}
			if uint64(c) > mask(args[0].args[0].sort.w) {
				return tt.boolConst(true)
			}
		}
		if args[1].op == oZext && args[0].isConst() && args[1].args[0].sort.w < args[1].sort.w {
			c := signExt(args[0].k, args[0].sort.w)
			if c < 0 {
				return tt.boolConst(true)
			}
			if uint64(c) >= mask(args[1].args[0].sort.w) {
				return tt.boolConst(false)
			}
		}
	case oBvSLe:
		if args[0].op == oZext && args[1].isConst() && args[0].args[0].sort.w < args[0].sort.w {
			c := signExt(args[1].k, args[1].sort.w)
			if c < 0 {
				return tt.boolConst(false)
			}
			if uint64(c) >= mask(args[0].args[0].sort.w) {
				return tt.boolConst(true)
			}
		}
		if args[1].op == oZext && args[0].isConst() && args[1].args[0].sort.w < args[1].sort.w {
			c := signExt(args[0].k, args[0].sort.w)
			if c <= 0 {
				return tt.boolConst(true)
			}
			if uint64(c) > mask(args[1].args[0].sort.w) {
				return tt.boolConst(false)
			}
		}
	}
	return tt.mk(op, s, k, k2, "", args...)
}

func dedup(ts []*Term) []*Term {
	if len(ts) < 2 {
		return ts
	}
	seen := make(map[*Term]bool, len(ts))
	out := ts[:0:0]
	for _, t := range ts {
		if !seen[t] {
			seen[t] = true
			out = append(out, t)
		}
	}
	return out
}

func maskOf(s tsort) uint64 {
	switch s.k {
	case sBool:
		return 1
	case sBV:
		return mask(s.w)
	}
	return ^uint64(0)
}

// convenience builders
func (tt *termTable) not(a *Term) *Term       { return tt.op(oNot, boolSort, 0, 0, a) }
func (tt *termTable) and(a ...*Term) *Term    { return tt.op(oAnd, boolSort, 0, 0, a...) }
func (tt *termTable) or(a ...*Term) *Term     { return tt.op(oOr, boolSort, 0, 0, a...) }
func (tt *termTable) eq(a, b *Term) *Term     { return tt.op(oEq, boolSort, 0, 0, a, b) }
func (tt *termTable) ite(c, a, b *Term) *Term { return tt.op(oIte, a.sort, 0, 0, c, a, b) }
func (tt *termTable) bin(op top, a, b *Term) *Term {
	s := a.sort
	switch op {
	case oBvULt, oBvULe, oBvSLt, oBvSLe, oFpLt, oFpLe, oFpEq:
		s = boolSort
	}
	return tt.op(op, s, 0, 0, a, b)
}
func (tt *termTable) zext(a *Term, w int) *Term {
	if a.sort.w == w {
		return a
	}
	return tt.op(oZext, bvSort(w), 0, 0, a)
}
func (tt *termTable) sext(a *Term, w int) *Term {
	if a.sort.w == w {
		return a
	}
	return tt.op(oSext, bvSort(w), 0, 0, a)
}
func (tt *termTable) extract(a *Term, hi, lo int) *Term {
	return tt.op(oExtract, bvSort(hi-lo+1), uint64(hi), lo, a)
}

// ---------------------------------------------------------------- printing

func constString(t *Term) string {
	switch t.sort.k {
	case sBool:
		if t.k != 0 {
			return "true"
		}
		return "false"
	case sBV:
		if t.sort.w%4 == 0 {
			return fmt.Sprintf("#x%0*x", t.sort.w/4, t.k)
		}
		return fmt.Sprintf("#b%0*b", t.sort.w, t.k)
	}
	// FP
	f := math.Float64frombits(t.k)
	if f != f {
		return "(_ NaN 11 53)"
	}
	return fmt.Sprintf("(fp #b%b #b%011b #x%013x)", t.k>>63, (t.k>>52)&0x7ff, t.k&((1<<52)-1))
}

func rmName(k uint64) string {
	return [...]string{"RNE", "RTP", "RTN", "RTZ", "RNA"}[k]
}

// exprString prints t's top-level operator with operands referenced by name.
func (t *Term) exprString(ref func(*Term) string) string {
	switch t.op {
	case oConst:
		return constString(t)
	case oVar:
		return t.name
	case oExtract:
		return fmt.Sprintf("((_ extract %d %d) %s)", t.k, t.k2, ref(t.args[0]))
	case oZext:
		return fmt.Sprintf("((_ zero_extend %d) %s)", t.sort.w-t.args[0].sort.w, ref(t.args[0]))
	case oSext:
		return fmt.Sprintf("((_ sign_extend %d) %s)", t.sort.w-t.args[0].sort.w, ref(t.args[0]))
	case oFpRTI:
		return fmt.Sprintf("(fp.roundToIntegral %s %s)", rmName(t.k), ref(t.args[0]))
	case oFpFromS:
		return fmt.Sprintf("((_ to_fp 11 53) RNE %s)", ref(t.args[0]))
	case oFpFromU:
		return fmt.Sprintf("((_ to_fp_unsigned 11 53) RNE %s)", ref(t.args[0]))
	case oFpToS:
		return fmt.Sprintf("((_ fp.to_sbv %d) RTZ %s)", t.sort.w, ref(t.args[0]))
	case oFpToU:
		return fmt.Sprintf("((_ fp.to_ubv %d) RTZ %s)", t.sort.w, ref(t.args[0]))
	case oFpFromBits:
		return fmt.Sprintf("((_ to_fp 11 53) %s)", ref(t.args[0]))
	}
	var sb strings.Builder
	sb.WriteByte('(')
	sb.WriteString(opNames[t.op])
	for _, a := range t.args {
		sb.WriteByte(' ')
		sb.WriteString(ref(a))
	}
	sb.WriteByte(')')
	return sb.String()
}

// String prints a full nested expression (debugging / samples).
func (t *Term) String() string {
	var ref func(*Term) string
	ref = func(x *Term) string { return x.exprString(ref) }
	return ref(t)
}

// ---------------------------------------------------------------- evaluation

// evalTerm evaluates t under the assignment (variables by name; missing = 0).
// ok=false when the value is unspecified by SMT-LIB (e.g. fp.to_sbv out of range).
type evaluator struct {
	asg  map[string]uint64
	memo map[*Term]uint64
	bad  bool
}

func newEvaluator(asg map[string]uint64) *evaluator {
	return &evaluator{asg: asg, memo: make(map[*Term]uint64)}
}

func (e *evaluator) eval(t *Term) uint64 {
	switch t.op {
	case oConst:
		return t.k
	case oVar:
		return e.asg[t.name] & maskOf(t.sort)
	}
	if v, ok := e.memo[t]; ok {
		return v
	}
	// short-circuit ite to avoid evaluating unspecified branches
	if t.op == oIte {
		c := e.eval(t.args[0])
		var v uint64
		if c != 0 {
			v = e.eval(t.args[1])
		} else {
			v = e.eval(t.args[2])
		}
		e.memo[t] = v
		return v
	}
	var av [4]uint64
	var as [4]tsort
	a, ss := av[:0], as[:0]
	for _, x := range t.args {
		a = append(a, e.eval(x))
		ss = append(ss, x.sort)
	}
	v, ok := evalOp(t.op, t.sort, t.k, t.k2, a, ss)
	if !ok {
		e.bad = true
	}
	v &= maskOf(t.sort)
	e.memo[t] = v
	return v
}

func log2(x uint64) int { return bits.Len64(x) - 1 }
