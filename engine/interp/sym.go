package interp

// Symbolic scalar values and operations on them.

import (
	"fmt"
	"go/token"
	"go/types"
	"math"
)

// sym is a symbolic scalar of Go basic kind k (bool, any integer kind,
// float64) represented by SMT term t.
type sym struct {
	t *Term
	k types.BasicKind
}

// symstr is a string with concrete length whose bytes are uint8 or sym(uint8).
type symstr []value

func kindWidth(k types.BasicKind) int {
	switch k {
	case types.Int8, types.Uint8:
		return 8
	case types.Int16, types.Uint16:
		return 16
	case types.Int32, types.Uint32:
		return 32
	case types.Int, types.Int64, types.Uint, types.Uint64, types.Uintptr:
		return 64
	}
	panic(fmt.Sprintf("kindWidth: %v", k))
}

func kindSigned(k types.BasicKind) bool {
	switch k {
	case types.Int, types.Int8, types.Int16, types.Int32, types.Int64:
		return true
	}
	return false
}

func isIntKind(k types.BasicKind) bool {
	switch k {
	case types.Int, types.Int8, types.Int16, types.Int32, types.Int64,
		types.Uint, types.Uint8, types.Uint16, types.Uint32, types.Uint64, types.Uintptr:
		return true
	}
	return false
}

func kindOfValue(x value) types.BasicKind {
	switch x.(type) {
	case bool:
		return types.Bool
	case int:
		return types.Int
	case int8:
		return types.Int8
	case int16:
		return types.Int16
	case int32:
		return types.Int32
	case int64:
		return types.Int64
	case uint:
		return types.Uint
	case uint8:
		return types.Uint8
	case uint16:
		return types.Uint16
	case uint32:
		return types.Uint32
	case uint64:
		return types.Uint64
	case uintptr:
		return types.Uintptr
	case float64:
		return types.Float64
	case float32:
		return types.Float32
	case sym:
		return x.(sym).k
	case symfix:
		return types.Float64
	}
	return types.Invalid
}

// concreteOfKind builds a concrete Go value of kind k from raw bits.
func concreteOfKind(k types.BasicKind, v uint64) value {
	switch k {
	case types.Bool:
		return v != 0
	case types.Int:
		return int(v)
	case types.Int8:
		return int8(v)
	case types.Int16:
		return int16(v)
	case types.Int32:
		return int32(v)
	case types.Int64:
		return int64(v)
	case types.Uint:
		return uint(v)
	case types.Uint8:
		return uint8(v)
	case types.Uint16:
		return uint16(v)
	case types.Uint32:
		return uint32(v)
	case types.Uint64:
		return uint64(v)
	case types.Uintptr:
		return uintptr(v)
	case types.Float64:
		return math.Float64frombits(v)
	}
	panic(fmt.Sprintf("concreteOfKind %v", k))
}

// rawBits returns the bit pattern of a concrete scalar.
func rawBits(x value) uint64 {
	switch x := x.(type) {
	case bool:
		if x {
			return 1
		}
		return 0
	case float64:
		return math.Float64bits(x)
	}
	return uint64(asInt64(x))
}

// isSymbolic reports whether v is (directly) a symbolic scalar or string.
func isSymbolic(v value) bool {
	switch v.(type) {
	case sym, symstr, symfix:
		return true
	}
	return false
}

// mkSym wraps a term; constants become concrete values.
func mkSym(t *Term, k types.BasicKind) value {
	if t.isConst() {
		return concreteOfKind(k, t.k)
	}
	return sym{t, k}
}

// termOf lifts a concrete or symbolic scalar of kind k to a term.
func termOf(tt *termTable, x value) *Term {
	switch x := x.(type) {
	case sym:
		return x.t
	case bool:
		return tt.boolConst(x)
	case float64:
		return tt.fpConst(x)
	case symfix:
		return x.toFP(tt)
	}
	k := kindOfValue(x)
	return tt.bvConst(uint64(asInt64(x)), kindWidth(k))
}

func tableOf(xs ...value) *termTable {
	for _, x := range xs {
		switch x := x.(type) {
		case sym:
			return x.t.tt
		case symfix:
			return x.t.tt
		case symstr:
			for _, b := range x {
				if s, ok := b.(sym); ok {
					return s.t.tt
				}
			}
		}
	}
	panic("tableOf: no symbolic operand")
}

func symBinop(op token.Token, x, y value) value {
	// floats
	if isFloatVal(x) || isFloatVal(y) {
		return floatBinop(op, x, y)
	}
	tt := tableOf(x, y)
	k := kindOfValue(x)
	if op == token.SHL || op == token.SHR {
		return symShift(tt, op, x, y)
	}
	a, b := termOf(tt, x), termOf(tt, y)
	if k == types.Bool {
		switch op {
		case token.EQL:
			return mkSym(tt.eq(a, b), types.Bool)
		case token.NEQ:
			return mkSym(tt.not(tt.eq(a, b)), types.Bool)
		case token.AND, token.LAND:
			return mkSym(tt.and(a, b), types.Bool)
		case token.OR, token.LOR:
			return mkSym(tt.or(a, b), types.Bool)
		}
		panic(fmt.Sprintf("symBinop bool %v", op))
	}
	sg := kindSigned(k)
	pick := func(s, u top) top {
		if sg {
			return s
		}
		return u
	}
	switch op {
	case token.ADD:
		return mkSym(tt.bin(oBvAdd, a, b), k)
	case token.SUB:
		return mkSym(tt.bin(oBvSub, a, b), k)
	case token.MUL:
		return mkSym(tt.bin(oBvMul, a, b), k)
	case token.QUO:
		return mkSym(tt.bin(pick(oBvSDiv, oBvUDiv), a, b), k)
	case token.REM:
		return mkSym(tt.bin(pick(oBvSRem, oBvURem), a, b), k)
	case token.AND:
		return mkSym(tt.bin(oBvAnd, a, b), k)
	case token.OR:
		return mkSym(tt.bin(oBvOr, a, b), k)
	case token.XOR:
		return mkSym(tt.bin(oBvXor, a, b), k)
	case token.AND_NOT:
		return mkSym(tt.bin(oBvAnd, a, tt.op(oBvNot, b.sort, 0, 0, b)), k)
	case token.EQL:
		return mkSym(tt.eq(a, b), types.Bool)
	case token.NEQ:
		return mkSym(tt.not(tt.eq(a, b)), types.Bool)
	case token.LSS:
		return mkSym(tt.bin(pick(oBvSLt, oBvULt), a, b), types.Bool)
	case token.LEQ:
		return mkSym(tt.bin(pick(oBvSLe, oBvULe), a, b), types.Bool)
	case token.GTR:
		return mkSym(tt.bin(pick(oBvSLt, oBvULt), b, a), types.Bool)
	case token.GEQ:
		return mkSym(tt.bin(pick(oBvSLe, oBvULe), b, a), types.Bool)
	}
	panic(fmt.Sprintf("symBinop: %v on %T %T", op, x, y))
}

func symShift(tt *termTable, op token.Token, x, y value) value {
	k := kindOfValue(x)
	w := kindWidth(k)
	a := termOf(tt, x)
	c := termOf(tt, y)
	cw := c.sort.w
	// negative signed counts are checked by the caller (panic).
	switch {
	case cw < w:
		c = tt.zext(c, w)
	case cw > w:
		// saturate count to w
		big := tt.bin(oBvULe, tt.bvConst(uint64(w), cw), c)
		c = tt.ite(big, tt.bvConst(uint64(w), w), tt.extract(c, w-1, 0))
	}
	var o top
	switch {
	case op == token.SHL:
		o = oBvShl
	case kindSigned(k):
		o = oBvAShr
	default:
		o = oBvLShr
	}
	return mkSym(tt.bin(o, a, c), k)
}

func symUnop(op token.Token, x value) value {
	if isFloatVal(x) {
		return floatNeg(x)
	}
	s := x.(sym)
	tt := s.t.tt
	switch op {
	case token.NOT:
		return mkSym(tt.not(s.t), types.Bool)
	case token.SUB:
		return mkSym(tt.op(oBvNeg, s.t.sort, 0, 0, s.t), s.k)
	case token.XOR:
		return mkSym(tt.op(oBvNot, s.t.sort, 0, 0, s.t), s.k)
	}
	panic(fmt.Sprintf("symUnop %v", op))
}

// symConvNum converts a symbolic numeric to basic kind dst.
func symConvNum(x value, dst types.BasicKind) value {
	if fx, ok := x.(symfix); ok {
		return fx.conv(dst)
	}
	s := x.(sym)
	tt := s.t.tt
	if s.k == types.Float64 {
		if dst == types.Float64 {
			return s
		}
		if dst == types.Float32 {
			panic(engineError{"float32 conversion of symbolic float64 unsupported"})
		}
		w := kindWidth(dst)
		// Go/amd64: out of range or NaN -> minimum int (cvttsd2si); only modelled for 64-bit.
		if kindSigned(dst) {
			lim := math.Ldexp(1, w-1)
			in := tt.and(tt.bin(oFpLt, s.t, tt.fpConst(lim)), tt.bin(oFpLe, tt.fpConst(-lim), s.t))
			conv := tt.op(oFpToS, bvSort(w), 0, 0, s.t)
			return mkSym(tt.ite(in, conv, tt.bvConst(uint64(1)<<uint(w-1), w)), dst)
		}
		lim := math.Ldexp(1, w)
		in := tt.and(tt.bin(oFpLt, s.t, tt.fpConst(lim)), tt.bin(oFpLe, tt.fpConst(0), s.t))
		conv := tt.op(oFpToU, bvSort(w), 0, 0, s.t)
		return mkSym(tt.ite(in, conv, tt.bvConst(uint64(1)<<uint(w-1), w)), dst)
	}
	if dst == types.Float64 {
		return intToFloat(s)
	}
	if dst == types.Float32 {
		panic(engineError{"float32 conversion of symbolic int unsupported"})
	}
	sw, dw := kindWidth(s.k), kindWidth(dst)
	t := s.t
	switch {
	case dw < sw:
		t = tt.extract(t, dw-1, 0)
	case dw > sw:
		if kindSigned(s.k) {
			t = tt.sext(t, dw)
		} else {
			t = tt.zext(t, dw)
		}
	}
	return mkSym(t, dst)
}

// symStrEq builds the equality of two strings (either may be concrete).
func strBytes(x value) (symstr, bool) {
	switch x := x.(type) {
	case string:
		out := make(symstr, len(x))
		for i := 0; i < len(x); i++ {
			out[i] = x[i]
		}
		return out, true
	case symstr:
		return x, true
	}
	return nil, false
}

func strLen(x value) int {
	switch x := x.(type) {
	case string:
		return len(x)
	case symstr:
		return len(x)
	}
	panic(fmt.Sprintf("strLen %T", x))
}

// normStr turns a symstr with no symbolic bytes back into a Go string.
func normStr(s symstr) value {
	for _, b := range s {
		if _, ok := b.(sym); ok {
			return s
		}
	}
	bs := make([]byte, len(s))
	for i, b := range s {
		bs[i] = b.(uint8)
	}
	return string(bs)
}

func symStrEq(x, y value) value {
	a, _ := strBytes(x)
	b, _ := strBytes(y)
	if len(a) != len(b) {
		return false
	}
	var tt *termTable
	var conj []*Term
	for i := range a {
		_, s1 := a[i].(sym)
		_, s2 := b[i].(sym)
		if !s1 && !s2 {
			if a[i].(uint8) != b[i].(uint8) {
				return false
			}
			continue
		}
		if tt == nil {
			tt = tableOf(a[i], b[i])
		}
		conj = append(conj, tt.eq(termOf(tt, a[i]), termOf(tt, b[i])))
	}
	if tt == nil {
		return true
	}
	return mkSym(tt.and(conj...), types.Bool)
}

// symStrLess builds x < y (lexicographic, bytewise).
func symStrLess(x, y value, orEqual bool) value {
	a, _ := strBytes(x)
	b, _ := strBytes(y)
	tt := tableOf(symstr(a), symstr(b))
	n := len(a)
	if len(b) < n {
		n = len(b)
	}
	// result for equal prefixes of length n
	var res *Term
	if len(a) < len(b) || (len(a) == len(b) && orEqual) {
		res = tt.boolConst(true)
	} else {
		res = tt.boolConst(false)
	}
	for i := n - 1; i >= 0; i-- {
		ai, bi := termOf(tt, a[i]), termOf(tt, b[i])
		res = tt.ite(tt.eq(ai, bi), res, tt.bin(oBvULt, ai, bi))
	}
	return mkSym(res, types.Bool)
}

func symStrBinop(op token.Token, x, y value) value {
	switch op {
	case token.ADD:
		a, _ := strBytes(x)
		b, _ := strBytes(y)
		out := make(symstr, 0, len(a)+len(b))
		out = append(out, a...)
		out = append(out, b...)
		return normStr(out)
	case token.EQL:
		return symStrEq(x, y)
	case token.NEQ:
		return notValue(symStrEq(x, y))
	case token.LSS:
		return symStrLess(x, y, false)
	case token.LEQ:
		return symStrLess(x, y, true)
	case token.GTR:
		return symStrLess(y, x, false)
	case token.GEQ:
		return symStrLess(y, x, true)
	}
	panic(fmt.Sprintf("symStrBinop %v", op))
}

func notValue(v value) value {
	switch v := v.(type) {
	case bool:
		return !v
	case sym:
		return mkSym(v.t.tt.not(v.t), types.Bool)
	}
	panic(fmt.Sprintf("notValue %T", v))
}

func andValue(x, y value) value {
	if b, ok := x.(bool); ok {
		if !b {
			return false
		}
		return y
	}
	if b, ok := y.(bool); ok {
		if !b {
			return false
		}
		return x
	}
	tt := tableOf(x, y)
	return mkSym(tt.and(x.(sym).t, y.(sym).t), types.Bool)
}

func orValue(x, y value) value {
	return notValue(andValue(notValue(x), notValue(y)))
}

// containsSym reports whether a (possibly aggregate) value has symbolic parts,
// looking through structs, arrays and interfaces but not pointers.
func containsSym(v value) bool {
	switch v := v.(type) {
	case sym, symstr, symfix:
		return true
	case structure:
		for _, f := range v {
			if containsSym(f) {
				return true
			}
		}
	case array:
		for _, f := range v {
			if containsSym(f) {
				return true
			}
		}
	case iface:
		return containsSym(v.v)
	}
	return false
}

// eqValue is == for type t that may return a symbolic bool.
func eqValue(t types.Type, x, y value) value {
	if !containsSym(x) && !containsSym(y) {
		return eqnil(t, x, y)
	}
	switch xv := x.(type) {
	case sym, symfix:
		return symBinop(token.EQL, x, y)
	case symstr:
		return symStrEq(x, y)
	case string:
		return symStrEq(x, y)
	case structure:
		yv := y.(structure)
		tStruct := t.Underlying().(*types.Struct)
		var res value = true
		for i, n := 0, tStruct.NumFields(); i < n; i++ {
			if f := tStruct.Field(i); f.Name() != "_" {
				res = andValue(res, eqValue(f.Type(), xv[i], yv[i]))
			}
		}
		return res
	case array:
		yv := y.(array)
		tElt := t.Underlying().(*types.Array).Elem()
		var res value = true
		for i := range xv {
			res = andValue(res, eqValue(tElt, xv[i], yv[i]))
		}
		return res
	case iface:
		yv := y.(iface)
		if !sameType(xv.t, yv.t) {
			return false
		}
		if xv.t == nil {
			return true
		}
		return eqValue(xv.t, xv.v, yv.v)
	}
	if _, ok := y.(sym); ok {
		return symBinop(token.EQL, x, y)
	}
	if _, ok := y.(symfix); ok {
		return symBinop(token.EQL, x, y)
	}
	panic(fmt.Sprintf("eqValue: %T %T", x, y))
}
