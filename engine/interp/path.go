package interp

// Per-path symbolic state: decisions, path condition, model-guided
// branching, assumptions, assertions and nondeterministic draws.

import (
	"fmt"
	"go/types"
	"math/big"
	"sort"
	"strings"
)

type engineError struct{ msg string }

func (e engineError) Error() string { return "engine error: " + e.msg }

type pathAbort struct{ reason string }

type violationPanic struct{ msg string }

// dec is one recorded decision: a branch direction, or for value
// enumeration (choose) the tested value.
type dec struct {
	B bool
	V uint64
}

type workItem struct {
	prefix []dec
	model  map[string]uint64
}

// Draw is one nondeterministic input of the harness, in draw order.
type Draw struct {
	Name string `json:"name"`
	Kind string `json:"kind"`
	V    uint64 `json:"v"`
	term *Term
	fixK int
}

type Violation struct {
	Harness string `json:"harness"`
	Msg     string `json:"msg"`
	Draws   []Draw `json:"values"`
	Panic   bool   `json:"panic"`
	Hang    bool   `json:"hang"`
	Pos     string `json:"pos,omitempty"`
}

type pathState struct {
	i         *interpreter
	tt        *termTable
	sol       *solver
	prefix    []dec
	pos       int
	decisions []dec
	vars      []*Term
	draws     []Draw
	model     map[string]uint64
	ev        *evaluator
	steps     int64
	budget    int64
	forks     []workItem
	covers    map[string]bool
	obligations int
	discharged  int
	symDecisions int
	unknowns  int
	assumes   int
	mapOrderSym bool
	lastPos   string
	harness   string
	nconds    int
	observed  []string // Observe() digests for translation validation
	params    map[string]int
	dom       map[*Term]*byteDom
	entangled map[*Term]bool
	domDecided int
	captureFmt bool
	captures   [][]value
	sched      *sched // cooperative scheduler, when the harness enables it
}

func (ps *pathState) inReplay() bool { return ps.pos < len(ps.prefix) }

func (ps *pathState) setModel(m map[string]uint64) {
	ps.model = m
	ps.ev = nil
}

func (ps *pathState) evaluator() *evaluator {
	if ps.ev == nil {
		ps.ev = newEvaluator(ps.model)
	}
	return ps.ev
}

func (ps *pathState) ensureModel() {
	if ps.model != nil {
		return
	}
	res, m := ps.sol.check(nil, ps.vars)
	switch res {
	case rSat:
		if m == nil {
			m = map[string]uint64{}
		}
		ps.setModel(m)
	case rUnsat:
		panic(pathAbort{"infeasible"})
	default:
		ps.unknowns++
		panic(pathAbort{"unknown"})
	}
}

// evalUnder evaluates t in the current model; ok=false if unspecified.
func (ps *pathState) evalUnder(t *Term) (uint64, bool) {
	ps.ensureModel()
	ev := ps.evaluator()
	ev.bad = false
	v := ev.eval(t)
	if ev.bad {
		ev.bad = false
		// memo may hold garbage for the unspecified sub-term: drop it
		ps.ev = nil
		return v, false
	}
	return v, true
}

func (ps *pathState) assertCond(c *Term) {
	ps.nconds++
	ps.noteCond(c)
	ps.sol.assertTerm(c)
}

// branch decides a symbolic condition, forking when both sides are feasible.
func (ps *pathState) branch(c *Term) bool {
	if c.isConst() {
		return c.k != 0
	}
	tt := ps.tt
	if ps.inReplay() {
		d := ps.prefix[ps.pos]
		ps.pos++
		ps.decisions = append(ps.decisions, d)
		if d.B {
			ps.assertCond(c)
		} else {
			ps.assertCond(tt.not(c))
		}
		return d.B
	}
	if v := ps.singleByteVar(c); v != nil {
		tset, fset := ps.split(c, v)
		switch {
		case fset.empty() && !tset.empty():
			ps.domDecided++
			ps.decisions = append(ps.decisions, dec{B: true})
			ps.nconds++
			ps.sol.assertTerm(c)
			return true
		case tset.empty() && !fset.empty():
			ps.domDecided++
			ps.decisions = append(ps.decisions, dec{B: false})
			ps.nconds++
			ps.sol.assertTerm(tt.not(c))
			return false
		case !tset.empty() && !fset.empty() && !ps.entangled[v]:
			// both sides feasible; v is independent of every other variable
			ps.ensureModel()
			cur := int(ps.model[v.name] & 0xff)
			taken := tset.has(cur)
			oset := fset
			if !taken {
				oset = tset
			}
			m := make(map[string]uint64, len(ps.model))
			for k, x := range ps.model {
				m[k] = x
			}
			m[v.name] = uint64(oset.first())
			sib := make([]dec, len(ps.decisions)+1)
			copy(sib, ps.decisions)
			sib[len(ps.decisions)] = dec{B: !taken}
			ps.forks = append(ps.forks, workItem{prefix: sib, model: m})
			ps.symDecisions++
			ps.domDecided++
			ps.decisions = append(ps.decisions, dec{B: taken})
			ps.nconds++
			if taken {
				*ps.domOf(v) = tset
				ps.sol.assertTerm(c)
			} else {
				*ps.domOf(v) = fset
				ps.sol.assertTerm(tt.not(c))
			}
			return taken
		}
	}
	mv, ok := ps.evalUnder(c)
	taken := mv != 0
	var other *Term
	if taken {
		other = tt.not(c)
	} else {
		other = c
	}
	if !ok {
		// model does not determine c: ask the solver for the true side first
		res, m := ps.sol.check(c, ps.vars)
		switch res {
		case rSat:
			taken, other = true, tt.not(c)
			ps.setModel(m)
		case rUnsat:
			ps.assertCond(tt.not(c))
			ps.decisions = append(ps.decisions, dec{B: false})
			return false
		default:
			ps.unknowns++
			panic(pathAbort{"unknown"})
		}
	}
	res, m := ps.sol.check(other, ps.vars)
	switch res {
	case rSat:
		sib := make([]dec, len(ps.decisions)+1)
		copy(sib, ps.decisions)
		sib[len(ps.decisions)] = dec{B: !taken}
		ps.forks = append(ps.forks, workItem{prefix: sib, model: m})
		ps.symDecisions++
	case rUnknown:
		ps.unknowns++
	}
	ps.decisions = append(ps.decisions, dec{B: taken})
	if taken {
		ps.assertCond(c)
	} else {
		ps.assertCond(tt.not(c))
	}
	return taken
}

// choose enumerates the feasible values of t (one path per value).
func (ps *pathState) choose(t *Term) uint64 {
	if t.isConst() {
		return t.k
	}
	tt := ps.tt
	mkc := func(v uint64) *Term {
		switch t.sort.k {
		case sBool:
			return tt.boolConst(v != 0)
		case sBV:
			return tt.bvConst(v, t.sort.w)
		}
		return tt.mk(oConst, fpSort, v, 0, "")
	}
	for {
		if ps.inReplay() {
			d := ps.prefix[ps.pos]
			ps.pos++
			ps.decisions = append(ps.decisions, d)
			c := tt.eq(t, mkc(d.V))
			if d.B {
				ps.assertCond(c)
				return d.V
			}
			ps.assertCond(tt.not(c))
			continue
		}
		mv, ok := ps.evalUnder(t)
		if !ok {
			// get a model that determines t
			res, m := ps.sol.check(nil, ps.vars)
			if res != rSat {
				ps.unknowns++
				panic(pathAbort{"unknown"})
			}
			ps.setModel(m)
			// ask the solver for t's value directly
			n := ps.sol.define(t)
			ps.sol.send("(check-sat)")
			ps.sol.readSexp()
			ps.sol.send("(get-value (" + n + "))")
			resp, _ := ps.sol.readSexp()
			tmp := map[string]uint64{}
			parseModel(resp, tmp)
			for _, v := range tmp {
				mv = v
			}
			ps.setModel(ps.sol.getValues(ps.vars))
		}
		c := tt.eq(t, mkc(mv))
		res, m := ps.sol.check(tt.not(c), ps.vars)
		switch res {
		case rSat:
			sib := make([]dec, len(ps.decisions)+1)
			copy(sib, ps.decisions)
			sib[len(ps.decisions)] = dec{B: false, V: mv}
			ps.forks = append(ps.forks, workItem{prefix: sib, model: m})
			ps.symDecisions++
		case rUnknown:
			ps.unknowns++
		}
		ps.decisions = append(ps.decisions, dec{B: true, V: mv})
		ps.assertCond(c)
		return mv
	}
}

func (ps *pathState) assume(c *Term) {
	ps.assumes++
	if c.isConst() {
		if c.k == 0 {
			panic(pathAbort{"infeasible"})
		}
		return
	}
	if ps.inReplay() || ps.model == nil {
		ps.assertCond(c)
		if !ps.inReplay() {
			ps.ensureModel()
		}
		return
	}
	mv, ok := ps.evalUnder(c)
	if ok && mv != 0 {
		ps.assertCond(c)
		return
	}
	res, m := ps.sol.check(c, ps.vars)
	switch res {
	case rSat:
		ps.setModel(m)
		ps.assertCond(c)
	case rUnsat:
		panic(pathAbort{"infeasible"})
	default:
		ps.unknowns++
		panic(pathAbort{"unknown"})
	}
}

func (ps *pathState) currentDraws() []Draw {
	out := make([]Draw, len(ps.draws))
	for i, d := range ps.draws {
		out[i] = d
		if d.term != nil {
			out[i].V = ps.model[d.term.name] & maskOf(d.term.sort)
		}
	}
	return out
}

func (ps *pathState) assert(c *Term, msg string) {
	if ps.inReplay() {
		return // already discharged on the parent path (same path-condition prefix)
	}
	ps.obligations++
	if c.isConst() {
		if c.k == 0 {
			ps.ensureModel()
			panic(violationPanic{msg})
		}
		ps.discharged++
		return
	}
	mv, ok := ps.evalUnder(c)
	if ok && mv == 0 {
		panic(violationPanic{msg})
	}
	res, m := ps.sol.check(ps.tt.not(c), ps.vars)
	switch res {
	case rUnsat:
		ps.discharged++
	case rSat:
		ps.setModel(m)
		panic(violationPanic{msg})
	default:
		ps.unknowns++
		panic(pathAbort{"unknown"})
	}
}

// truth turns a bool-or-sym into a concrete bool (forking).
func (i *interpreter) truth(v value) bool {
	switch v := v.(type) {
	case bool:
		return v
	case sym:
		return i.ps.branch(v.t)
	}
	panic(fmt.Sprintf("truth: %T", v))
}

// concreteInt turns an int-or-sym into a concrete int64 (forking over values).
func (i *interpreter) concreteInt(v value) int64 {
	if s, ok := v.(sym); ok {
		u := i.ps.choose(s.t)
		if kindSigned(s.k) {
			return signExt(u, kindWidth(s.k))
		}
		return int64(u)
	}
	return asInt64(v)
}

// concreteVal forks a symbolic scalar into a concrete value of the same kind.
func (i *interpreter) concreteVal(v value) value {
	switch s := v.(type) {
	case sym:
		u := i.ps.choose(s.t)
		return concreteOfKind(s.k, u)
	case symfix:
		u := i.ps.choose(s.t)
		return mkFix(s.t.tt.bvConst(u, 64), s.k)
	case symstr:
		bs := make([]byte, len(s))
		for j, b := range s {
			bs[j] = i.concreteVal(b).(uint8)
		}
		return string(bs)
	}
	return v
}

// ---- draws

func (ps *pathState) newDraw(name, kind string, s tsort) *Term {
	vn := fmt.Sprintf("v%d_%s", len(ps.draws), sanitize(name))
	t := ps.tt.newVar(vn, s)
	ps.vars = append(ps.vars, t)
	ps.draws = append(ps.draws, Draw{Name: name, Kind: kind, term: t})
	return t
}

func sanitize(s string) string {
	var sb strings.Builder
	for _, c := range s {
		if c >= 'a' && c <= 'z' || c >= 'A' && c <= 'Z' || c >= '0' && c <= '9' || c == '_' {
			sb.WriteRune(c)
		} else {
			sb.WriteByte('_')
		}
	}
	return sb.String()
}

// drawRange draws a BV var of kind k constrained to [lo,hi] (signed).
func (ps *pathState) drawRange(name string, k types.BasicKind, lo, hi int64) value {
	if lo > hi {
		panic(pathAbort{"infeasible"})
	}
	w := kindWidth(k)
	t := ps.newDraw(name, types.Typ[k].Name(), bvSort(w))
	tt := ps.tt
	if kindSigned(k) {
		tt.varS[t] = ival{big.NewInt(lo), big.NewInt(hi)}
	} else {
		tt.varU[t] = ival{big.NewInt(lo), big.NewInt(hi)}
	}
	full := false
	if kindSigned(k) {
		f := fullS(w)
		full = big.NewInt(lo).Cmp(f.lo) <= 0 && big.NewInt(hi).Cmp(f.hi) >= 0
	} else {
		full = lo <= 0 && uint64(hi) >= mask(w)
	}
	if !full {
		if ps.model != nil && !ps.inReplay() {
			// a fresh variable is unconstrained: pick lo so the model stays valid
			ps.model[t.name] = uint64(lo) & mask(w)
			ps.ev = nil
		}
		var c *Term
		if kindSigned(k) {
			c = tt.and(tt.bin(oBvSLe, tt.bvConst(uint64(lo), w), t), tt.bin(oBvSLe, t, tt.bvConst(uint64(hi), w)))
		} else {
			c = tt.and(tt.bin(oBvULe, tt.bvConst(uint64(lo), w), t), tt.bin(oBvULe, t, tt.bvConst(uint64(hi), w)))
		}
		ps.assertCond(c)
	}
	return mkSym(t, k)
}

// chooseRange draws a fresh integer in [lo,hi] and concretises it at once.
// The variable is fresh and constrained by nothing but its range, so every
// value of the range is feasible whenever the path condition is (and that was
// established by the solver at the last branch): the alternatives are
// enumerated by interval reasoning, without a solver query per value. The
// draw, its value and the decision sequence are recorded exactly as choose
// would record them, so replay files keep their format. Used for schedule
// choices and nd.Choose, where queries for trivially satisfiable forks
// dominated the run time (1.2 million of them in the shutdown harness).
func (ps *pathState) chooseRange(name string, k types.BasicKind, lo, hi int64) int64 {
	if lo > hi {
		panic(pathAbort{"infeasible"})
	}
	w := kindWidth(k)
	t := ps.newDraw(name, types.Typ[k].Name(), bvSort(w))
	tt := ps.tt
	cur := lo
	for {
		if ps.inReplay() {
			d := ps.prefix[ps.pos]
			ps.pos++
			ps.decisions = append(ps.decisions, d)
			v := int64(d.V)
			if kindSigned(k) {
				v = signExt(d.V, w)
			}
			if d.B {
				cur = v
				break
			}
			cur = v + 1
			if cur > hi {
				panic(pathAbort{"infeasible"})
			}
			continue
		}
		if cur < hi {
			sib := make([]dec, len(ps.decisions)+1)
			copy(sib, ps.decisions)
			sib[len(ps.decisions)] = dec{B: false, V: uint64(cur) & mask(w)}
			var m map[string]uint64
			if ps.model != nil {
				m = make(map[string]uint64, len(ps.model)+1)
				for k2, v2 := range ps.model {
					m[k2] = v2
				}
				m[t.name] = uint64(cur+1) & mask(w)
			}
			ps.forks = append(ps.forks, workItem{prefix: sib, model: m})
			ps.symDecisions++
		}
		ps.decisions = append(ps.decisions, dec{B: true, V: uint64(cur) & mask(w)})
		break
	}
	if ps.model != nil {
		ps.model[t.name] = uint64(cur) & mask(w)
		ps.ev = nil
	}
	ps.assertCond(tt.eq(t, tt.bvConst(uint64(cur)&mask(w), w)))
	return cur
}

type coverSet map[string]int

func sortedKeys(m map[string]int) []string {
	var ks []string
	for k := range m {
		ks = append(ks, k)
	}
	sort.Strings(ks)
	return ks
}
