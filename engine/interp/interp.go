// Copyright 2013 The Go Authors. All rights reserved.
// Use of this source code is governed by a BSD-style
// license that can be found in the LICENSE file.

// Package interp is gosx: a forking symbolic interpreter for the SSA form
// of Go programs, derived from golang.org/x/tools/go/ssa/interp (v0.29.0).
// Control flow, calls, closures, defer/panic/recover, interfaces and
// aggregates follow the original; scalar values may be SMT terms, branches on
// them are decided by a solver, and every path of the harness entry function
// is explored by prefix replay (see path.go, explore.go).
package interp

import (
	"fmt"
	"go/token"
	"go/types"
	"os"
	"runtime"
	"runtime/debug"
	"slices"
	"strings"
	_ "unsafe"

	"golang.org/x/tools/go/ssa"
)

type continuation int

const (
	kNext continuation = iota
	kReturn
	kJump
)

// Mode is a bitmask of options affecting the interpreter.
type Mode uint

const (
	DisableRecover Mode = 1 << iota // Disable recover() in target programs; show interpreter crash instead.
	EnableTracing                   // Print a trace of all instructions as they are interpreted.
)

type methodSet map[string]*ssa.Function

// shared is the state shared (read-only after setup) by all interpreters.
type shared struct {
	prog               *ssa.Program
	reflectPackage     *ssa.Package
	errorMethods       methodSet
	rtypeMethods       methodSet
	runtimeErrorString types.Type
	sizes              types.Sizes
}

type undoRec struct {
	addr *value
	old  value
	fn   func()
}

type fnInfo struct {
	slots  map[ssa.Value]int
	nslots int
	intrinsic intrinsicFn
	ext    externalFn
	name   string
	checked bool
	subst  *ssa.Function // harness-side Go stub that replaces this function
}

// State of one interpreter instance (one worker).
type interpreter struct {
	*shared
	osArgs     []value                // the value of os.Args
	globals    map[*ssa.Global]*value // addresses of global variables (immutable)
	mode       Mode                   // interpreter options
	goroutines int32
	ps         *pathState
	fninfo     map[*ssa.Function]*fnInfo
	undo       []undoRec
	logging    bool
	initSkip   func(pkgPath string) bool
	subst      map[string]*ssa.Function // target function name -> harness stub
	funcsSeen  map[*ssa.Function]bool
	depth      int
	maxDepth   int
	consts     map[*ssa.Const]value
	initPanicPos string
}

type deferred struct {
	fn    value
	args  []value
	instr *ssa.Defer
	tail  *deferred
}

type frame struct {
	i                *interpreter
	caller           *frame
	fn               *ssa.Function
	info             *fnInfo
	block, prevBlock *ssa.BasicBlock
	env              []value // dynamic values of SSA variables, by slot
	locals           []value
	defers           *deferred
	result           value
	panicking        bool
	panic            interface{}
	phitemps         []value // temporaries for parallel phi assignment
}

func (i *interpreter) logUndo(fn func()) {
	if i.logging {
		i.undo = append(i.undo, undoRec{fn: fn})
	}
}

func (i *interpreter) logStore(addr *value) {
	if i.logging {
		i.undo = append(i.undo, undoRec{addr: addr, old: *addr})
	}
}

func (i *interpreter) rollback() {
	for j := len(i.undo) - 1; j >= 0; j-- {
		r := &i.undo[j]
		if r.fn != nil {
			r.fn()
		} else {
			*r.addr = r.old
		}
	}
	clear(i.undo)
	i.undo = i.undo[:0]
}

func (i *interpreter) info(fn *ssa.Function) *fnInfo {
	if fi, ok := i.fninfo[fn]; ok {
		return fi
	}
	fi := &fnInfo{slots: make(map[ssa.Value]int), name: fn.String()}
	n := 0
	add := func(v ssa.Value) {
		fi.slots[v] = n
		n++
	}
	for _, p := range fn.Params {
		add(p)
	}
	for _, fv := range fn.FreeVars {
		add(fv)
	}
	for _, b := range fn.Blocks {
		for _, instr := range b.Instrs {
			if v, ok := instr.(ssa.Value); ok {
				add(v)
			}
		}
	}
	fi.nslots = n
	if fn.Parent() == nil {
		fi.intrinsic = intrinsics[fi.name]
		fi.ext = externals[fi.name]
		if st := i.subst[fi.name]; st != nil && st != fn {
			fi.subst = st
		}
	}
	i.fninfo[fn] = fi
	return fi
}

func (fr *frame) get(key ssa.Value) value {
	switch key := key.(type) {
	case nil:
		// Hack; simplifies handling of optional attributes
		// such as ssa.Slice.{Low,High}.
		return nil
	case *ssa.Function, *ssa.Builtin:
		return key
	case *ssa.Const:
		if v, ok := fr.i.consts[key]; ok {
			return v
		}
		v := constValue(key)
		fr.i.consts[key] = v
		return v
	case *ssa.Global:
		if r, ok := fr.i.globals[key]; ok {
			return r
		}
	}
	if idx, ok := fr.info.slots[key]; ok {
		return fr.env[idx]
	}
	panic(fmt.Sprintf("get: no value for %T: %v", key, key.Name()))
}

func (fr *frame) set(key ssa.Value, v value) {
	fr.env[fr.info.slots[key]] = v
}

// isControlPanic reports panics that belong to the engine, not the target.
func isControlPanic(p interface{}) bool {
	switch p.(type) {
	case engineError, pathAbort, violationPanic, schedKill:
		return true
	}
	return false
}

// runDefer runs a deferred call d.
// It always returns normally, but may set or clear fr.panic.
func (fr *frame) runDefer(d *deferred) {
	var ok bool
	defer func() {
		if !ok {
			// Deferred call created a new state of panic.
			p := recover()
			if isControlPanic(p) {
				panic(p)
			}
			fr.panicking = true
			fr.panic = p
		}
	}()
	call(fr.i, fr, d.instr.Pos(), d.fn, d.args)
	ok = true
}

// runDefers executes fr's deferred function calls in LIFO order.
func (fr *frame) runDefers() {
	for d := fr.defers; d != nil; d = d.tail {
		fr.runDefer(d)
	}
	fr.defers = nil
	if fr.panicking {
		panic(fr.panic) // new panic, or still panicking
	}
}

// lookupMethod returns the method set for type typ, which may be one
// of the interpreter's fake types.
func lookupMethod(i *interpreter, typ types.Type, meth *types.Func) *ssa.Function {
	switch typ {
	case rtypeType:
		return i.rtypeMethods[meth.Id()]
	case errorType:
		return i.errorMethods[meth.Id()]
	}
	return i.prog.LookupMethod(typ, meth.Pkg(), meth.Name())
}

func runtimePanic(msg string) {
	panic("runtime error: " + msg)
}

// visitInstr interprets a single ssa.Instruction within the activation
// record frame.  It returns a continuation value indicating where to
// read the next instruction from.
func visitInstr(fr *frame, instr ssa.Instruction) continuation {
	i := fr.i
	switch instr := instr.(type) {
	case *ssa.DebugRef:
		// no-op

	case *ssa.UnOp:
		fr.set(instr, unop(fr, instr, fr.get(instr.X)))

	case *ssa.BinOp:
		x, y := fr.get(instr.X), fr.get(instr.Y)
		switch instr.Op {
		case token.QUO, token.REM:
			if s, ok := y.(sym); ok && isIntKind(s.k) {
				if i.truth(symBinop(token.EQL, y, concreteOfKind(s.k, 0))) {
					runtimePanic("integer divide by zero")
				}
			}
		case token.SHL, token.SHR:
			if s, ok := y.(sym); ok && kindSigned(s.k) {
				if i.truth(symBinop(token.LSS, y, concreteOfKind(s.k, 0))) {
					runtimePanic("negative shift amount")
				}
			}
		}
		fr.set(instr, binop(instr.Op, instr.X.Type(), x, y))

	case *ssa.Call:
		fn, args := prepareCall(fr, &instr.Call)
		fr.set(instr, call(fr.i, fr, instr.Pos(), fn, args))

	case *ssa.ChangeInterface:
		fr.set(instr, fr.get(instr.X))

	case *ssa.ChangeType:
		fr.set(instr, fr.get(instr.X)) // (can't fail)

	case *ssa.Convert:
		fr.set(instr, conv(i, instr.Type(), instr.X.Type(), fr.get(instr.X)))

	case *ssa.SliceToArrayPointer:
		fr.set(instr, sliceToArrayPointer(instr.Type(), instr.X.Type(), fr.get(instr.X)))

	case *ssa.MakeInterface:
		fr.set(instr, iface{t: instr.X.Type(), v: fr.get(instr.X)})

	case *ssa.Extract:
		fr.set(instr, fr.get(instr.Tuple).(tuple)[instr.Index])

	case *ssa.Slice:
		fr.set(instr, slice(i, fr.get(instr.X), fr.get(instr.Low), fr.get(instr.High), fr.get(instr.Max)))

	case *ssa.Return:
		switch len(instr.Results) {
		case 0:
		case 1:
			fr.result = fr.get(instr.Results[0])
		default:
			var res []value
			for _, r := range instr.Results {
				res = append(res, fr.get(r))
			}
			fr.result = tuple(res)
		}
		fr.block = nil
		return kReturn

	case *ssa.RunDefers:
		fr.runDefers()

	case *ssa.Panic:
		panic(targetPanic{fr.get(instr.X)})

	case *ssa.Send:
		chanSend(fr, fr.get(instr.Chan), fr.get(instr.X))

	case *ssa.Store:
		addr := fr.get(instr.Addr)
		if r, ok := addr.(symref); ok {
			addr = r.resolve(i)
		}
		store(i, mustDeref(instr.Addr.Type()), addr.(*value), fr.get(instr.Val))

	case *ssa.If:
		succ := 1
		if i.truth(fr.get(instr.Cond)) {
			succ = 0
		}
		fr.prevBlock, fr.block = fr.block, fr.block.Succs[succ]
		return kJump

	case *ssa.Jump:
		fr.prevBlock, fr.block = fr.block, fr.block.Succs[0]
		return kJump

	case *ssa.Defer:
		fn, args := prepareCall(fr, &instr.Call)
		defers := &fr.defers
		if into := fr.get(instr.DeferStack); into != nil {
			defers = into.(**deferred)
		}
		*defers = &deferred{
			fn:    fn,
			args:  args,
			instr: instr,
			tail:  *defers,
		}

	case *ssa.Go:
		fn, args := prepareCall(fr, &instr.Call)
		spawn(fr, instr, fn, args)

	case *ssa.MakeChan:
		fr.set(instr, makeChan(fr, instr, i.concreteInt(fr.get(instr.Size))))

	case *ssa.Alloc:
		var addr *value
		if instr.Heap {
			// new
			addr = new(value)
			fr.set(instr, addr)
		} else {
			// local
			addr = fr.get(instr).(*value)
		}
		*addr = zero(mustDeref(instr.Type()))

	case *ssa.MakeSlice:
		c := i.concreteInt(fr.get(instr.Cap))
		l := i.concreteInt(fr.get(instr.Len))
		if l < 0 || c < l || c > 1<<28 {
			runtimePanic("makeslice: len out of range")
		}
		slice := make([]value, c)
		tElt := instr.Type().Underlying().(*types.Slice).Elem()
		for i := range slice {
			slice[i] = zero(tElt)
		}
		fr.set(instr, slice[:l])

	case *ssa.MakeMap:
		fr.set(instr, makeMap(instr.Type().Underlying().(*types.Map).Key(), 0))

	case *ssa.Range:
		fr.set(instr, rangeIter(fr, fr.get(instr.X), instr.X.Type()))

	case *ssa.Next:
		fr.set(instr, fr.get(instr.Iter).(iter).next())

	case *ssa.FieldAddr:
		fr.set(instr, &(*fr.get(instr.X).(*value)).(structure)[instr.Field])

	case *ssa.Field:
		fr.set(instr, fr.get(instr.X).(structure)[instr.Field])

	case *ssa.IndexAddr:
		x := fr.get(instr.X)
		idx := fr.get(instr.Index)
		var elems []value
		switch x := x.(type) {
		case []value:
			elems = x
		case *value: // *array
			elems = (*x).(array)
		default:
			panic(fmt.Sprintf("unexpected x type in IndexAddr: %T", x))
		}
		if s, ok := idx.(sym); ok {
			r := symref{elems: elems, idx: s}
			if onlyLoaded(instr) {
				fr.set(instr, r)
			} else {
				fr.set(instr, r.resolve(i))
			}
		} else {
			fr.set(instr, &elems[asInt64(idx)])
		}

	case *ssa.Index:
		x := fr.get(instr.X)
		idx := fr.get(instr.Index)
		if s, ok := idx.(sym); ok {
			switch x := x.(type) {
			case array:
				fr.set(instr, symref{elems: x, idx: s}.load(i))
			case string:
				e, _ := strBytes(x)
				fr.set(instr, symref{elems: e, idx: s}.load(i))
			case symstr:
				fr.set(instr, symref{elems: x, idx: s}.load(i))
			default:
				panic(fmt.Sprintf("unexpected x type in Index: %T", x))
			}
			break
		}
		switch x := x.(type) {
		case array:
			fr.set(instr, x[asInt64(idx)])
		case string:
			fr.set(instr, x[asInt64(idx)])
		case symstr:
			fr.set(instr, x[asInt64(idx)])
		default:
			panic(fmt.Sprintf("unexpected x type in Index: %T", x))
		}

	case *ssa.Lookup:
		fr.set(instr, lookup(i, instr, fr.get(instr.X), fr.get(instr.Index)))

	case *ssa.MapUpdate:
		m := fr.get(instr.Map)
		key := fr.get(instr.Key)
		v := fr.get(instr.Value)
		switch m := m.(type) {
		case *gomap:
			m.insert(i, key, v)
		default:
			panic(fmt.Sprintf("illegal map type: %T", m))
		}

	case *ssa.TypeAssert:
		fr.set(instr, typeAssert(fr.i, instr, fr.get(instr.X).(iface)))

	case *ssa.MakeClosure:
		var bindings []value
		for _, binding := range instr.Bindings {
			bindings = append(bindings, fr.get(binding))
		}
		fr.set(instr, &closure{instr.Fn.(*ssa.Function), bindings})

	case *ssa.Phi:
		panic("unreachable") // phis are processed at block entry

	case *ssa.Select:
		fr.set(instr, doSelect(fr, instr))

	default:
		panic(fmt.Sprintf("unexpected instruction: %T", instr))
	}

	return kNext
}

// prepareCall determines the function value and argument values for a
// function call in a Call, Go or Defer instruction, performing
// interface method lookup if needed.
func prepareCall(fr *frame, call *ssa.CallCommon) (fn value, args []value) {
	v := fr.get(call.Value)
	if call.Method == nil {
		// Function call.
		fn = v
	} else {
		// Interface method invocation.
		recv := v.(iface)
		if recv.t == nil {
			runtimePanic("invalid memory address or nil pointer dereference (method invoked on nil interface)")
		}
		if f := lookupMethod(fr.i, recv.t, call.Method); f == nil {
			// Unreachable in well-typed programs.
			panic(fmt.Sprintf("method set for dynamic type %v does not contain %s", recv.t, call.Method))
		} else {
			fn = f
		}
		args = append(args, recv.v)
	}
	for _, arg := range call.Args {
		args = append(args, fr.get(arg))
	}
	return
}

// call interprets a call to a function (function, builtin or closure)
// fn with arguments args, returning its result.
// callpos is the position of the callsite.
func call(i *interpreter, caller *frame, callpos token.Pos, fn value, args []value) value {
	switch fn := fn.(type) {
	case *ssa.Function:
		if fn == nil {
			runtimePanic("invalid memory address or nil pointer dereference (call of nil function)")
		}
		return callSSA(i, caller, callpos, fn, args, nil)
	case *closure:
		return callSSA(i, caller, callpos, fn.Fn, args, fn.Env)
	case *ssa.Builtin:
		return callBuiltin(caller, callpos, fn, args)
	}
	panic(fmt.Sprintf("cannot call %T", fn))
}

func loc(fset *token.FileSet, pos token.Pos) string {
	if pos == token.NoPos {
		return ""
	}
	return " at " + fset.Position(pos).String()
}

func anySymbolic(args []value) bool {
	for _, a := range args {
		if anySym(a, 3) {
			return true
		}
	}
	return false
}

// anySym looks for symbolic parts through slices/structs up to a depth.
func anySym(v value, depth int) bool {
	switch v := v.(type) {
	case sym, symstr, symfix, symref:
		return true
	case []value:
		if depth == 0 {
			return false
		}
		for _, e := range v {
			if anySym(e, depth-1) {
				return true
			}
		}
	case structure:
		if depth == 0 {
			return false
		}
		for _, e := range v {
			if anySym(e, depth-1) {
				return true
			}
		}
	case array:
		if depth == 0 {
			return false
		}
		for _, e := range v {
			if anySym(e, depth-1) {
				return true
			}
		}
	case iface:
		return anySym(v.v, depth)
	case tuple:
		for _, e := range v {
			if anySym(e, depth) {
				return true
			}
		}
	}
	return false
}

// callSSA interprets a call to function fn with arguments args,
// and lexical environment env, returning its result.
// callpos is the position of the callsite.
func callSSA(i *interpreter, caller *frame, callpos token.Pos, fn *ssa.Function, args []value, env []value) value {
	if i.mode&EnableTracing != 0 {
		fset := fn.Prog.Fset
		fmt.Fprintf(os.Stderr, "Entering %s%s.\n", fn, loc(fset, fn.Pos()))
		suffix := ""
		if caller != nil {
			suffix = ", resuming " + caller.fn.String() + loc(fset, callpos)
		}
		defer fmt.Fprintf(os.Stderr, "Leaving %s%s.\n", fn, suffix)
	}
	info := i.info(fn)
	fr := &frame{
		i:      i,
		caller: caller, // for panic/recover
		fn:     fn,
		info:   info,
	}
	if info.subst != nil {
		return callSSA(i, caller, callpos, info.subst, args, nil)
	}
	// reflect.TypeFor[T]() (used by package initialisers such as encoding/xml's): the type argument is static
	if ta := fn.TypeArgs(); len(ta) == 1 && fn.Pkg == nil && strings.HasPrefix(info.name, "reflect.TypeFor[") {
		return makeReflectType(rtype{ta[0]})
	}
	if fn.Parent() == nil {
		if info.intrinsic != nil {
			if r, ok := info.intrinsic(fr, args); ok {
				return r
			}
		}
		if info.ext != nil && !anySymbolic(args) {
			return info.ext(fr, args)
		}
		if fn.Blocks == nil {
			if fn.Synthetic == "package initializer" || fn.Name() == "init" {
				return nil
			}
			// assembly-backed function with a pure Go twin (math/big: addVV -> addVV_g)
			if fn.Pkg != nil {
				if g := fn.Pkg.Func(fn.Name() + "_g"); g != nil && g.Blocks != nil {
					return callSSA(i, caller, callpos, g, args, nil)
				}
			}
			panic(engineError{"no code for function: " + info.name + callerChain(caller)})
		}
		if !info.checked {
			info.checked = true
			if fn.Name() == "init" && fn.Pkg != nil && fn == fn.Pkg.Func("init") && i.initSkip != nil && i.initSkip(fn.Pkg.Pkg.Path()) {
				info.intrinsic = func(fr *frame, args []value) (value, bool) { return nil, true }
				i.poisonPackage(fn.Pkg)
				return nil
			}
		}
	}
	if i.funcsSeen != nil {
		i.funcsSeen[fn] = true
	}

	// generic function body?
	if fn.TypeParams().Len() > 0 && len(fn.TypeArgs()) == 0 {
		panic("interp requires ssa.BuilderMode to include InstantiateGenerics to execute generics")
	}
	i.depth++
	if i.depth > i.maxDepth {
		i.depth = 0
		if i.ps != nil && i.ps.lastPos == "" {
			i.ps.lastPos = fn.String() + callerChain(caller)
		}
		panic(pathAbort{"depth"})
	}

	fr.env = make([]value, info.nslots)
	fr.block = fn.Blocks[0]
	fr.locals = make([]value, len(fn.Locals))
	for j, l := range fn.Locals {
		fr.locals[j] = zero(mustDeref(l.Type()))
		fr.env[info.slots[l]] = &fr.locals[j]
	}
	for j, p := range fn.Params {
		fr.env[info.slots[p]] = args[j]
	}
	for j, fv := range fn.FreeVars {
		fr.env[info.slots[fv]] = env[j]
	}
	for fr.block != nil {
		runFrame(fr)
	}
	i.depth--
	return fr.result
}

func callerChain(fr *frame) string {
	var sb strings.Builder
	for n := 0; fr != nil && n < 12; fr, n = fr.caller, n+1 {
		sb.WriteString("\n\tfrom ")
		sb.WriteString(fr.fn.String())
	}
	return sb.String()
}

// runFrame executes SSA instructions starting at fr.block and
// continuing until a return, a panic, or a recovered panic.
func runFrame(fr *frame) {
	depth := fr.i.depth
	defer func() {
		if fr.block == nil {
			return // normal return
		}
		p := recover()
		if isControlPanic(p) {
			if fr.i.ps == nil && fr.i.initPanicPos == "" {
				fr.i.initPanicPos = fr.fn.String() + callerChain(fr.caller)
			}
			panic(p)
		}
		if re, ok := p.(runtime.Error); ok {
			msg := re.Error()
			if _, ok := p.(*runtime.TypeAssertionError); ok || strings.Contains(msg, "interface conversion") {
				panic(engineError{fmt.Sprintf("interpreter type confusion in %s: %s\n%s%s", fr.fn, msg, debug.Stack(), callerChain(fr))})
			}
		}
		fr.i.depth = depth
		fr.panicking = true
		fr.panic = p
		if fr.i.ps != nil && fr.i.ps.lastPos == "" {
			fr.i.ps.lastPos = fr.fn.String() + callerChain(fr.caller)
		}
		if fr.i.ps == nil && fr.i.initPanicPos == "" {
			fr.i.initPanicPos = fmt.Sprintf("%v in %s%s", p, fr.fn.String(), callerChain(fr.caller))
			if os.Getenv("GOSX_DEBUG") != "" {
				fr.i.initPanicPos += "\n" + string(debug.Stack())
			}
		}
		fr.runDefers()
		fr.block = fr.fn.Recover
	}()

	ps := fr.i.ps
	for {
		nonPhis := executePhis(fr)
		if ps != nil {
			ps.steps += int64(len(nonPhis))
			if ps.steps > ps.budget {
				panic(pathAbort{"budget"})
			}
		}
		for _, instr := range nonPhis {
			if visitInstr(fr, instr) == kReturn {
				return
			}
			// Inv: kNext (continue) or kJump (last instr)
		}
	}
}

// executePhis executes the phi-nodes at the start of the current
// block and returns the non-phi instructions.
func executePhis(fr *frame) []ssa.Instruction {
	firstNonPhi := -1
	for i, instr := range fr.block.Instrs {
		if _, ok := instr.(*ssa.Phi); !ok {
			firstNonPhi = i
			break
		}
	}
	// Inv: 0 <= firstNonPhi; every block contains a non-phi.

	nonPhis := fr.block.Instrs[firstNonPhi:]
	if firstNonPhi > 0 {
		phis := fr.block.Instrs[:firstNonPhi]
		predIndex := slices.Index(fr.block.Preds, fr.prevBlock)
		fr.phitemps = fr.phitemps[:0]
		for _, phi := range phis {
			phi := phi.(*ssa.Phi)
			fr.phitemps = append(fr.phitemps, fr.get(phi.Edges[predIndex]))
		}
		for i, phi := range phis {
			fr.set(phi.(*ssa.Phi), fr.phitemps[i])
		}
	}
	return nonPhis
}

// doRecover implements the recover() built-in.
func doRecover(caller *frame) value {
	// recover() must be exactly one level beneath the deferred
	// function (two levels beneath the panicking function) to
	// have any effect.  Thus we ignore both "defer recover()" and
	// "defer f() -> g() -> recover()".
	if caller.i.mode&DisableRecover == 0 &&
		caller != nil && !caller.panicking &&
		caller.caller != nil && caller.caller.panicking {
		caller.caller.panicking = false
		p := caller.caller.panic
		caller.caller.panic = nil
		if caller.i.ps != nil {
			caller.i.ps.lastPos = ""
		}

		switch p := p.(type) {
		case targetPanic:
			// The target program explicitly called panic().
			return p.v
		case runtime.Error:
			// The interpreter encountered a runtime error.
			return iface{caller.i.runtimeErrorString, p.Error()}
		case string:
			// The interpreter explicitly called panic().
			return iface{caller.i.runtimeErrorString, p}
		default:
			panic(fmt.Sprintf("unexpected panic type %T in target call to recover()", p))
		}
	}
	return iface{}
}

// newShared prepares the program-wide state.
func newShared(prog *ssa.Program, sizes types.Sizes) *shared {
	sh := &shared{prog: prog, sizes: sizes}
	runtimePkg := prog.ImportedPackage("runtime")
	if runtimePkg == nil {
		panic("ssa.Program doesn't include runtime package")
	}
	sh.runtimeErrorString = runtimePkg.Type("errorString").Object().Type()
	initReflect(sh)
	return sh
}

func newInterpreter(sh *shared) *interpreter {
	i := &interpreter{
		shared:    sh,
		globals:   make(map[*ssa.Global]*value),
		fninfo:    make(map[*ssa.Function]*fnInfo),
		consts:    make(map[*ssa.Const]value),
		maxDepth:  2000,
	}
	for _, pkg := range i.prog.AllPackages() {
		// Initialize global storage.
		for _, m := range pkg.Members {
			switch v := m.(type) {
			case *ssa.Global:
				cell := zero(mustDeref(v.Type()))
				i.globals[v] = &cell
			}
		}
	}
	return i
}

// poison marks values of package-level variables whose initialiser was
// skipped; any use is an engine error (never a silent wrong value).
type poison struct{ name string }

func (i *interpreter) poisonPackage(pkg *ssa.Package) {
	init := pkg.Func("init")
	if init == nil {
		return
	}
	for _, b := range init.Blocks {
		for _, instr := range b.Instrs {
			if st, ok := instr.(*ssa.Store); ok {
				if g, ok := st.Addr.(*ssa.Global); ok && g.Name() != "init$guard" {
					*i.globals[g] = poison{g.String()}
				}
			}
		}
	}
}
