package interp

// Deterministic, insertion-ordered map used for every Go map of the target
// program. Re-execution of a path prefix must reproduce the same iteration
// order, so Go's randomised native maps cannot be used. Keys with symbolic
// parts are kept in the same entry list but are found by symbolic
// comparison (forking) instead of hashing.

import (
	"fmt"
	"go/types"
)

type mentry struct {
	key     value
	val     value
	deleted bool
	symKey  bool
}

type gomap struct {
	keyType types.Type
	entries []mentry
	idx     map[int][]int // hash -> entry indices (concrete keys only)
	live    int
	nsym    int
}

func makeMap(kt types.Type, reserve int64) value {
	return &gomap{keyType: kt, idx: make(map[int][]int)}
}

func (m *gomap) len() int {
	if m == nil {
		return 0
	}
	return m.live
}

func (m *gomap) findConcrete(k value) int {
	h := hash(m.keyType, m.keyType, k)
	for _, ei := range m.idx[h] {
		e := &m.entries[ei]
		if !e.deleted && equals(m.keyType, k, e.key) {
			return ei
		}
	}
	return -1
}

// find returns the entry index for key k or -1. With symbolic keys involved
// the comparison forks through i.truth.
func (m *gomap) find(i *interpreter, k value) int {
	if m == nil {
		return -1
	}
	if !containsSym(k) {
		if m.nsym > 0 {
			for ei := range m.entries {
				e := &m.entries[ei]
				if e.deleted || !e.symKey {
					continue
				}
				if i.truth(eqValue(m.keyType, k, e.key)) {
					return ei
				}
			}
		}
		return m.findConcrete(k)
	}
	// symbolic key: compare against every live entry in order
	for ei := range m.entries {
		e := &m.entries[ei]
		if e.deleted {
			continue
		}
		if sl, ok := strBytes(k); ok {
			if el, ok2 := strBytes(e.key); ok2 && len(sl) != len(el) {
				continue
			}
		}
		if i.truth(eqValue(m.keyType, k, e.key)) {
			return ei
		}
	}
	return -1
}

func (m *gomap) lookup(i *interpreter, k value) (value, bool) {
	ei := m.find(i, k)
	if ei < 0 {
		return nil, false
	}
	return m.entries[ei].val, true
}

func (m *gomap) insert(i *interpreter, k, v value) {
	if m == nil {
		panic("assignment to entry in nil map")
	}
	ei := m.find(i, k)
	if ei >= 0 {
		old := m.entries[ei].val
		i.logUndo(func() { m.entries[ei].val = old })
		m.entries[ei].val = v
		return
	}
	symk := containsSym(k)
	m.entries = append(m.entries, mentry{key: k, val: v, symKey: symk})
	n := len(m.entries) - 1
	var h int
	if symk {
		m.nsym++
	} else {
		h = hash(m.keyType, m.keyType, k)
		m.idx[h] = append(m.idx[h], n)
	}
	m.live++
	i.logUndo(func() {
		m.entries = m.entries[:n]
		m.live--
		if symk {
			m.nsym--
		} else {
			l := m.idx[h]
			m.idx[h] = l[:len(l)-1]
		}
	})
}

func (m *gomap) delete(i *interpreter, k value) {
	ei := m.find(i, k)
	if ei < 0 {
		return
	}
	e := &m.entries[ei]
	e.deleted = true
	m.live--
	if e.symKey {
		m.nsym--
	}
	i.logUndo(func() {
		e := &m.entries[ei]
		e.deleted = false
		m.live++
		if e.symKey {
			m.nsym++
		}
	})
}

// gomapIter iterates in insertion order; entries appended during iteration
// are visited, deleted ones skipped (both allowed by the Go spec).
type gomapIter struct {
	m     *gomap
	pos   int
	order []int // optional permutation (symbolic map order)
}

func (it *gomapIter) next() tuple {
	if it.m == nil {
		return tuple{false, nil, nil}
	}
	if it.order != nil {
		for it.pos < len(it.order) {
			e := &it.m.entries[it.order[it.pos]]
			it.pos++
			if !e.deleted {
				return tuple{true, e.key, e.val}
			}
		}
		return tuple{false, nil, nil}
	}
	for it.pos < len(it.m.entries) {
		e := &it.m.entries[it.pos]
		it.pos++
		if !e.deleted {
			return tuple{true, e.key, e.val}
		}
	}
	return tuple{false, nil, nil}
}

func (m *gomap) String() string {
	return fmt.Sprintf("map[%d entries]", m.len())
}

// hashable is kept for struct/array/iface hashing helpers in value.go.
type hashable interface {
	hash(t types.Type) int
	eq(t types.Type, x interface{}) bool
}
