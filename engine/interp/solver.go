package interp

// One incremental SMT solver process (z3 -in / cvc5 --incremental) per worker.

import (
	"bufio"
	"fmt"
	"io"
	"math"
	"os"
	"os/exec"
	"strconv"
	"strings"
	"time"
)

type solverStats struct {
	Queries  int
	Sat      int
	Unsat    int
	Unknown  int
	Errors   int
	TimeS    float64
	MaxQuery float64
}

type solver struct {
	name  string
	cmd   *exec.Cmd
	in    io.WriteCloser
	w     *bufio.Writer
	out   *bufio.Reader
	stats solverStats
	log   io.Writer
	// defined term ids in current path scope
	defined map[int]bool
	depth   int
	timeoutMs int
	script  []string // path-scope declarations and assertions (for one-shot queries)
	hasFP   bool
	oneShotN int
	oneShotS float64
	crossChecked int
	scratch string
}

func solverArgv(name string, timeoutMs int) []string {
	switch name {
	case "z3":
		return []string{"/usr/bin/z3", "-in", fmt.Sprintf("-t:%d", timeoutMs)}
	case "z3-new":
		return []string{"z3-new", "-in", fmt.Sprintf("-t:%d", timeoutMs)}
	case "cvc5":
		return []string{"cvc5", "--incremental", "--lang=smt2", "--produce-models", fmt.Sprintf("--tlimit-per=%d", timeoutMs)}
	}
	panic("unknown solver " + name)
}

func newSolver(name string, timeoutMs int) (*solver, error) {
	argv := solverArgv(name, timeoutMs)
	cmd := exec.Command(argv[0], argv[1:]...)
	in, err := cmd.StdinPipe()
	if err != nil {
		return nil, err
	}
	out, err := cmd.StdoutPipe()
	if err != nil {
		return nil, err
	}
	cmd.Stderr = os.Stderr
	if err := cmd.Start(); err != nil {
		return nil, err
	}
	s := &solver{name: name, cmd: cmd, in: in, w: bufio.NewWriterSize(in, 1<<16), out: bufio.NewReaderSize(out, 1<<16), defined: map[int]bool{}, timeoutMs: timeoutMs}
	if p := os.Getenv("GOSX_SMTLOG"); p != "" {
		f, _ := os.Create(fmt.Sprintf("%s.%d", p, cmd.Process.Pid))
		s.log = f
	}
	s.send("(set-option :produce-models true)")
	if name == "cvc5" {
		s.send("(set-logic ALL)")
	}
	return s, nil
}

func (s *solver) close() {
	if s.scratch != "" {
		os.RemoveAll(s.scratch)
	}
	s.w.Flush()
	s.in.Close()
	done := make(chan struct{})
	go func() { s.cmd.Wait(); close(done) }()
	select {
	case <-done:
	case <-time.After(2 * time.Second):
		s.cmd.Process.Kill()
	}
}

func (s *solver) send(cmd string) {
	if s.log != nil {
		io.WriteString(s.log, cmd+"\n")
	}
	s.w.WriteString(cmd)
	s.w.WriteByte('\n')
	if s.depth == 1 && (strings.HasPrefix(cmd, "(declare-fun") || strings.HasPrefix(cmd, "(assert")) {
		s.script = append(s.script, cmd)
	}
}

// readSexp reads one balanced s-expression or atom line from the solver.
func (s *solver) readSexp() (string, error) {
	s.w.Flush()
	var sb strings.Builder
	depth := 0
	started := false
	for {
		line, err := s.out.ReadString('\n')
		if err != nil {
			return sb.String(), err
		}
		inStr := false
		for _, c := range line {
			if c == '"' {
				inStr = !inStr
			}
			if inStr {
				continue
			}
			if c == '(' {
				depth++
				started = true
			} else if c == ')' {
				depth--
			}
		}
		sb.WriteString(line)
		if strings.TrimSpace(line) != "" {
			started = true
		}
		if started && depth <= 0 {
			return strings.TrimSpace(sb.String()), nil
		}
	}
}

func (s *solver) push() { s.send("(push 1)"); s.depth++ }
func (s *solver) pop()  { s.send("(pop 1)"); s.depth-- }

// beginPath opens the per-path scope.
func (s *solver) beginPath() {
	s.push()
	s.defined = map[int]bool{}
	s.script = s.script[:0]
	s.hasFP = false
}

func (s *solver) endPath() {
	for s.depth > 0 {
		s.pop()
	}
}

// define makes sure t (and its sub-terms) are defined in the solver and
// returns the name that refers to it.
func (s *solver) define(t *Term) string {
	switch t.op {
	case oConst:
		return constString(t)
	case oVar:
		if !s.defined[t.id] {
			s.defined[t.id] = true
			s.send(fmt.Sprintf("(declare-fun %s () %s)", t.name, t.sort))
		}
		return t.name
	}
	name := "t" + strconv.Itoa(t.id)
	if s.defined[t.id] {
		return name
	}
	// iterative post-order to avoid deep recursion
	type fr struct {
		t *Term
		i int
	}
	stack := []fr{{t, 0}}
	for len(stack) > 0 {
		top := &stack[len(stack)-1]
		if top.i < len(top.t.args) {
			a := top.t.args[top.i]
			top.i++
			if a.op == oConst || s.defined[a.id] {
				continue
			}
			if a.op == oVar {
				s.defined[a.id] = true
				s.send(fmt.Sprintf("(declare-fun %s () %s)", a.name, a.sort))
				continue
			}
			stack = append(stack, fr{a, 0})
			continue
		}
		x := top.t
		stack = stack[:len(stack)-1]
		if s.defined[x.id] {
			continue
		}
		s.defined[x.id] = true
		if x.sort.k == sFP || x.op >= oFpAdd {
			s.hasFP = true
		}
		ref := func(a *Term) string {
			switch a.op {
			case oConst:
				return constString(a)
			case oVar:
				return a.name
			}
			return "t" + strconv.Itoa(a.id)
		}
		// z3 expands define-fun as a macro at every use (exponential on DAGs),
		// so shared sub-terms are introduced as constants with a defining equation.
		s.send(fmt.Sprintf("(declare-fun t%d () %s)", x.id, x.sort))
		s.send(fmt.Sprintf("(assert (= t%d %s))", x.id, x.exprString(ref)))
	}
	return name
}

// NOTE: definitions made inside an inner (push) scope disappear at (pop);
// callers must define terms at path scope before pushing. assertTerm and
// check below take care of that.

func (s *solver) assertTerm(t *Term) {
	n := s.define(t)
	s.send("(assert " + n + ")")
}

type satResult int

const (
	rUnsat satResult = iota
	rSat
	rUnknown
)

// check decides path-condition ∧ extra (extra may be nil). When sat and
// wantModel is non-nil, the values of those variables are fetched.
func (s *solver) check(extra *Term, vars []*Term) (satResult, map[string]uint64) {
	var n string
	if extra != nil {
		n = s.define(extra)
	}
	for _, v := range vars {
		if v.sort.k == sFP && s.defined[v.id] {
			s.hasFP = true
		}
	}
	if s.hasFP {
		// floating-point constraints: the incremental core of z3 is far slower
		// than a fresh solver with its FP tactics, so decide these one-shot.
		return s.oneShot(n, vars)
	}
	if extra != nil {
		s.push()
		s.send("(assert " + n + ")")
	}
	t0 := time.Now()
	s.send("(check-sat)")
	resp, err := s.readSexp()
	dt := time.Since(t0).Seconds()
	s.stats.Queries++
	s.stats.TimeS += dt
	if dt > s.stats.MaxQuery {
		s.stats.MaxQuery = dt
	}
	if err != nil {
		panic(engineError{"solver died: " + err.Error() + " " + resp})
	}
	var res satResult
	switch resp {
	case "sat":
		res = rSat
		s.stats.Sat++
	case "unsat":
		res = rUnsat
		s.stats.Unsat++
	case "unknown", "timeout":
		res = rUnknown
		s.stats.Unknown++
	default:
		s.stats.Errors++
		res = rUnknown
		if strings.Contains(resp, "error") {
			panic(engineError{"solver error: " + resp})
		}
	}
	var model map[string]uint64
	if res == rSat && len(vars) > 0 {
		model = s.getValues(vars)
	}
	if extra != nil {
		s.pop()
	}
	return res, model
}

func (s *solver) getValues(vars []*Term) map[string]uint64 {
	model := make(map[string]uint64, len(vars))
	const chunk = 200
	for i := 0; i < len(vars); i += chunk {
		j := i + chunk
		if j > len(vars) {
			j = len(vars)
		}
		var sb strings.Builder
		sb.WriteString("(get-value (")
		for _, v := range vars[i:j] {
			if !s.defined[v.id] {
				// not yet declared to the solver: unconstrained; skip
				continue
			}
			sb.WriteString(v.name)
			sb.WriteByte(' ')
		}
		sb.WriteString("))")
		if sb.Len() == len("(get-value ())") {
			continue
		}
		s.send(sb.String())
		resp, err := s.readSexp()
		if err != nil || strings.Contains(resp, "(error") {
			panic(engineError{"get-value failed: " + resp})
		}
		parseModel(resp, model)
	}
	return model
}

// parseModel parses ((name value) ...) where value is #x.., #b.., true,
// false, (fp #b. #b... #x...), (_ NaN 11 53), (_ +zero 11 53), (_ bvN w) ...
func parseModel(resp string, out map[string]uint64) {
	toks := tokenize(resp)
	p := 0
	var parseVal func() uint64
	skip := func() {
		if toks[p] != "(" {
			p++
			return
		}
		d := 0
		for {
			if toks[p] == "(" {
				d++
			} else if toks[p] == ")" {
				d--
			}
			p++
			if d == 0 {
				return
			}
		}
	}
	atomVal := func(a string) (uint64, int) {
		switch {
		case a == "true":
			return 1, 1
		case a == "false":
			return 0, 1
		case strings.HasPrefix(a, "#x"):
			v, _ := strconv.ParseUint(a[2:], 16, 64)
			return v, 4 * (len(a) - 2)
		case strings.HasPrefix(a, "#b"):
			v, _ := strconv.ParseUint(a[2:], 2, 64)
			return v, len(a) - 2
		}
		return 0, 0
	}
	parseVal = func() uint64 {
		if toks[p] != "(" {
			v, _ := atomVal(toks[p])
			p++
			return v
		}
		// compound
		start := p
		p++
		switch toks[p] {
		case "fp":
			p++
			sg := parseVal()
			ex := parseVal()
			mt := parseVal()
			p++ // )
			return sg<<63 | ex<<52 | mt
		case "_":
			p++
			kind := toks[p]
			p = start
			skip()
			switch {
			case kind == "NaN":
				return math.Float64bits(math.NaN())
			case kind == "+zero":
				return 0
			case kind == "-zero":
				return 1 << 63
			case kind == "+oo":
				return math.Float64bits(math.Inf(1))
			case kind == "-oo":
				return math.Float64bits(math.Inf(-1))
			case strings.HasPrefix(kind, "bv"):
				v, _ := strconv.ParseUint(kind[2:], 10, 64)
				return v
			}
			return 0
		}
		p = start
		skip()
		return 0
	}
	if toks[p] != "(" {
		return
	}
	p++
	for p < len(toks) && toks[p] == "(" {
		p++
		name := toks[p]
		p++
		v := parseVal()
		out[name] = v
		if toks[p] == ")" {
			p++
		}
	}
}

func tokenize(s string) []string {
	var toks []string
	i := 0
	for i < len(s) {
		c := s[i]
		switch {
		case c == '(' || c == ')':
			toks = append(toks, string(c))
			i++
		case c == ' ' || c == '\n' || c == '\t' || c == '\r':
			i++
		default:
			j := i
			for j < len(s) && !strings.ContainsRune("() \n\t\r", rune(s[j])) {
				j++
			}
			toks = append(toks, s[i:j])
			i = j
		}
	}
	return toks
}


// oneShot decides script ∧ extra with a fresh solver process (cvc5 first,
// z3 when cvc5 does not answer).
func (s *solver) oneShot(extra string, vars []*Term) (satResult, map[string]uint64) {
	t0 := time.Now()
	var sb strings.Builder
	sb.WriteString("(set-logic ALL)\n(set-option :produce-models true)\n")
	for _, l := range s.script {
		sb.WriteString(l)
		sb.WriteByte('\n')
	}
	if extra != "" {
		sb.WriteString("(assert " + extra + ")\n")
	}
	sb.WriteString("(check-sat)\n")
	var names []string
	for _, v := range vars {
		if s.defined[v.id] {
			names = append(names, v.name)
		}
	}
	if len(names) > 0 {
		sb.WriteString("(get-value (" + strings.Join(names, " ") + "))\n")
	}
	if s.scratch == "" {
		d, err := os.MkdirTemp("", "gosx-smt-")
		if err != nil {
			panic(engineError{"mkdtemp: " + err.Error()})
		}
		s.scratch = d
	}
	file := s.scratch + "/q.smt2"
	if err := os.WriteFile(file, []byte(sb.String()), 0o644); err != nil {
		panic(engineError{"write query: " + err.Error()})
	}
	res := rUnknown
	var model map[string]uint64
	for _, argv := range [][]string{
		{"cvc5", "--lang=smt2", fmt.Sprintf("--tlimit=%d", s.timeoutMs), file},
		{"/usr/bin/z3", fmt.Sprintf("-T:%d", s.timeoutMs/1000+1), file},
	} {
		out, _ := exec.Command(argv[0], argv[1:]...).Output()
		txt := strings.TrimSpace(string(out))
		first := txt
		rest := ""
		if i := strings.IndexByte(txt, '\n'); i >= 0 {
			first, rest = strings.TrimSpace(txt[:i]), txt[i+1:]
		}
		switch first {
		case "sat":
			res = rSat
			model = map[string]uint64{}
			if strings.HasPrefix(strings.TrimSpace(rest), "((") {
				parseModel(strings.TrimSpace(rest), model)
			}
		case "unsat":
			res = rUnsat
		default:
			if strings.Contains(first, "error") && !strings.Contains(first, "timeout") && first != "unknown" {
				s.stats.Errors++
				panic(engineError{"one-shot solver error: " + txt})
			}
			continue
		}
		break
	}
	dt := time.Since(t0).Seconds()
	s.stats.Queries++
	s.stats.TimeS += dt
	s.oneShotN++
	if dt > s.stats.MaxQuery {
		s.stats.MaxQuery = dt
	}
	switch res {
	case rSat:
		s.stats.Sat++
	case rUnsat:
		s.stats.Unsat++
	default:
		s.stats.Unknown++
	}
	return res, model
}
