package interp

// Byte-domain propagation: branch conditions that depend on a single 8-bit
// input variable (character-class tests of parsers) are decided by exact
// enumeration of that variable's remaining domain instead of a solver call.
// Domains are over-approximations maintained from single-variable path
// conditions; "both sides feasible" is concluded from a domain only while the
// variable is not entangled with others by a multi-variable condition.

type byteDom [4]uint64

func (d *byteDom) has(x int) bool { return d[x>>6]&(1<<uint(x&63)) != 0 }
func (d *byteDom) set(x int)      { d[x>>6] |= 1 << uint(x&63) }
func (d *byteDom) empty() bool    { return d[0]|d[1]|d[2]|d[3] == 0 }
func (d *byteDom) first() int {
	for x := 0; x < 256; x++ {
		if d.has(x) {
			return x
		}
	}
	return -1
}

var fullByteDom = byteDom{^uint64(0), ^uint64(0), ^uint64(0), ^uint64(0)}

// support returns the variables t depends on (nil, false if more than 2).
func (tt *termTable) support(t *Term) ([]*Term, bool) {
	if s, ok := tt.supp[t]; ok {
		return s.vars, s.ok
	}
	var res suppSet
	switch t.op {
	case oConst:
		res = suppSet{nil, true}
	case oVar:
		res = suppSet{[]*Term{t}, true}
	default:
		res.ok = true
		for _, a := range t.args {
			vs, ok := tt.support(a)
			if !ok {
				res = suppSet{nil, false}
				break
			}
			for _, v := range vs {
				found := false
				for _, w := range res.vars {
					if w == v {
						found = true
						break
					}
				}
				if !found {
					res.vars = append(res.vars[:len(res.vars):len(res.vars)], v)
				}
			}
			if len(res.vars) > 2 {
				res = suppSet{nil, false}
				break
			}
		}
	}
	tt.supp[t] = res
	return res.vars, res.ok
}

type suppSet struct {
	vars []*Term
	ok   bool
}

// singleByteVar returns v if c depends exactly on one 8-bit variable.
func (ps *pathState) singleByteVar(c *Term) *Term {
	vs, ok := ps.tt.support(c)
	if !ok || len(vs) != 1 || vs[0].sort.k != sBV || vs[0].sort.w != 8 {
		return nil
	}
	return vs[0]
}

func (ps *pathState) domOf(v *Term) *byteDom {
	if d, ok := ps.dom[v]; ok {
		return d
	}
	d := fullByteDom
	ps.dom[v] = &d
	return &d
}

// split partitions v's domain by the truth of c.
func (ps *pathState) split(c, v *Term) (tset, fset byteDom) {
	d := ps.domOf(v)
	asg := map[string]uint64{}
	ev := &evaluator{asg: asg, memo: make(map[*Term]uint64, 64)}
	for x := 0; x < 256; x++ {
		if !d.has(x) {
			continue
		}
		asg[v.name] = uint64(x)
		clear(ev.memo)
		if ev.eval(c) != 0 {
			tset.set(x)
		} else {
			fset.set(x)
		}
	}
	return
}

// noteCond updates domains / entanglement for an asserted condition.
func (ps *pathState) noteCond(c *Term) {
	if v := ps.singleByteVar(c); v != nil {
		t, _ := ps.split(c, v)
		*ps.domOf(v) = t
		return
	}
	ps.entangle(c)
}

func (ps *pathState) entangle(c *Term) {
	// every variable below c becomes entangled
	seen := map[*Term]bool{}
	var walk func(t *Term)
	walk = func(t *Term) {
		if seen[t] {
			return
		}
		seen[t] = true
		if t.op == oVar {
			ps.entangled[t] = true
			return
		}
		for _, a := range t.args {
			walk(a)
		}
	}
	walk(c)
}
